"""Harness-side hooks on the real csvpath functions (guard: CSVPATH_VERIF=1).

All hooks route to the module-global `REC` (a Recorder or None). Monitor state
lives in the single worker thread. Each hook counts its activations so a check
can tell "held" from "never looked".
"""
import copy
import os

from . import env

REC = None
_installed = set()


class Recorder:
    def __init__(self, deep_vars=True):
        self.lines = []  # LineEvents
        self.votes = []  # per Matcher.matches call: (pln, [votes])
        self.evals = []  # (pln, component index)
        self.valid = []  # (pln, old, new, cause)
        self.setvars = []  # (pln, name, tracking, value)
        self.prints = []  # (pln, text)
        self.errors_handled = []  # (pln, policy, actions)
        self.violations = []  # online assertion failures
        self.deep_vars = deep_vars
        self.counts = {}

    def c(self, k, n=1):
        self.counts[k] = self.counts.get(k, 0) + n


class recording:
    def __init__(self, agg=None, rec=None, **kw):
        self.rec = rec or Recorder(**kw)
        self.agg = agg

    def __enter__(self):
        global REC
        self._old = REC
        REC = self.rec
        return self.rec

    def __exit__(self, *a):
        global REC
        REC = self._old
        if self.agg is not None:
            for k, v in self.rec.counts.items():
                self.agg.count(k, v)
        return False


def _pln(cp):
    try:
        lm = cp._line_monitor
        return lm.physical_line_number if lm is not None else None
    except Exception:
        return None


def visible_vars(variables, deep=True):
    d = {k: v for k, v in variables.items() if not str(k).startswith("_intx_")}
    return copy.deepcopy(d) if deep else d


def install_line_hook():
    """CsvPath._consider_line (exit) -> LineEvent; this is *the* trace."""
    env.require_guard()
    if "line" in _installed:
        return
    from csvpath import CsvPath

    orig = CsvPath._consider_line

    def _consider_line(self, line):
        rec = REC
        if rec is None:
            return orig(self, line)
        mc0, sc0 = self.match_count, self.scan_count
        adv0 = self._advance
        try:
            ret = orig(self, line)
        except BaseException as e:
            rec.lines.append(
                {
                    "id": id(self),
                    "pln": _pln(self),
                    "line": list(line),
                    "ret": None,
                    "exc": type(e).__name__,
                    "vars": visible_vars(self.variables, rec.deep_vars),
                    "valid": self._is_valid,
                    "stopped": self.stopped,
                    "scan": self.scan_count,
                    "match": self.match_count,
                    "considered": self.scan_count != sc0,
                    "adv": self._advance,
                    "adv0": adv0,
                }
            )
            rec.c("line_events")
            raise
        rec.lines.append(
            {
                "id": id(self),
                "pln": _pln(self),
                "line": list(line),
                "ret": ret,
                "vars": visible_vars(self.variables, rec.deep_vars),
                "valid": self._is_valid,
                "stopped": self.stopped,
                "scan": self.scan_count,
                "match": self.match_count,
                "considered": self.scan_count != sc0,
                "dmatch": self.match_count - mc0,
                "adv": self._advance,
                "adv0": adv0,
                "frozen": self._freeze_path,
            }
        )
        rec.c("line_events")
        return ret

    CsvPath._consider_line = _consider_line
    _installed.add("line")


def install_vote_hook():
    """Matcher.matches (exit): per-component vote vector; Expression.matches
    (entry when not yet decided): which top-level components ran on which line."""
    env.require_guard()
    if "vote" in _installed:
        return
    from csvpath.matching.matcher import Matcher
    from csvpath.matching.productions.expression import Expression

    orig = Matcher.matches

    def matches(self):
        rec = REC
        if rec is None:
            return orig(self)
        ret = orig(self)
        rec.votes.append((_pln(self.csvpath), [e[1] for e in self.expressions], ret))
        rec.c("vote_events")
        return ret

    Matcher.matches = matches
    eorig = Expression.matches

    def ematches(self, *, skip=None):
        rec = REC
        if rec is not None and self.match is None and not (skip and self in skip):
            try:
                idx = [e[0] for e in self.matcher.expressions].index(self)
            except ValueError:
                idx = -1
            rec.evals.append((_pln(self.matcher.csvpath), idx))
            rec.c("eval_events")
        return eorig(self, skip=skip)

    Expression.matches = ematches
    _installed.add("vote")


def install_valid_hook():
    """CsvPath.is_valid replaced by a recording property: (pln, old, new, cause frame)."""
    env.require_guard()
    if "valid" in _installed:
        return
    import sys
    from csvpath import CsvPath

    def getter(self):
        return self._is_valid

    def setter(self, tf):
        rec = REC
        if rec is not None:
            cause = "?"
            f = sys._getframe(1)
            depth = 0
            while f is not None and depth < 12:
                fn = f.f_code.co_filename
                if "/csvpath/" in fn and "/vfy/" not in fn:
                    slf = f.f_locals.get("self")
                    cause = f"{type(slf).__name__}.{f.f_code.co_name}" if slf is not None else f.f_code.co_name
                    break
                f = f.f_back
                depth += 1
            rec.valid.append((_pln(self), self._is_valid, tf, cause))
            rec.c("valid_events")
            if self._is_valid is False and tf is True:
                rec.violations.append(("valid-reset", _pln(self), cause))
        self._is_valid = tf

    CsvPath.is_valid = property(getter, setter)
    _installed.add("valid")


def install_sidefx_hook():
    """CsvPath.set_variable / print / print_to tagged with the current physical line."""
    env.require_guard()
    if "sidefx" in _installed:
        return
    from csvpath import CsvPath

    osv = CsvPath.set_variable

    def set_variable(self, name, *, value, tracking=None):
        rec = REC
        if rec is not None and not str(name).startswith("_intx_"):
            rec.setvars.append((_pln(self), name, tracking, copy.deepcopy(value) if rec.deep_vars else value, self._freeze_path))
            rec.c("setvar_events")
        return osv(self, name, value=value, tracking=tracking)

    CsvPath.set_variable = set_variable
    op = CsvPath.print
    opt = CsvPath.print_to

    def print_(self, string):
        rec = REC
        if rec is not None:
            rec.prints.append((_pln(self), "default", string))
            rec.c("print_events")
        return op(self, string)

    def print_to(self, name, string):
        rec = REC
        if rec is not None:
            rec.prints.append((_pln(self), name, string))
            rec.c("print_events")
        return opt(self, name, string)

    CsvPath.print = print_
    CsvPath.print_to = print_to
    _installed.add("sidefx")


def install_error_hook():
    """ErrorHandler._handle_if: what the handler did for each error"""
    env.require_guard()
    if "error" in _installed:
        return
    from csvpath.util.error import ErrorHandler

    orig = ErrorHandler._handle_if

    def _handle_if(self, *, policy, error):
        rec = REC
        if rec is None:
            return orig(self, policy=policy, error=error)
        cp = self._csvpath
        before = (cp.stopped if cp else None, cp._is_valid if cp else None)
        raised = False
        try:
            return orig(self, policy=policy, error=error)
        except BaseException:
            raised = True
            raise
        finally:
            rec.errors_handled.append(
                {
                    "pln": _pln(cp) if cp else None,
                    "policy": list(policy) if isinstance(policy, (list, tuple)) else policy,
                    "raised": raised,
                    "stopped": (before[0], cp.stopped if cp else None),
                    "valid": (before[1], cp._is_valid if cp else None),
                    "line_count": getattr(error, "line_count", None),
                    "etype": type(getattr(error, "error", None)).__name__,
                }
            )
            rec.c("error_events")

    ErrorHandler._handle_if = _handle_if
    _installed.add("error")


def install_all():
    install_line_hook()
    install_vote_hook()
    install_valid_hook()
    install_sidefx_hook()
    install_error_hook()


# ---------------------------------------------------------------- file system audit
_FS = {"on": False, "events": None, "root": None}


def install_fs_audit():
    """sys.addaudithook log of open-for-write / rename / remove / mkdir / rmdir under cwd"""
    env.require_guard()
    if "fs" in _installed:
        return
    import sys

    def hook(event, args):
        ev = _FS["events"]
        if ev is None:
            return
        try:
            if event == "open":
                path, mode, flags = args
                if not isinstance(path, (str, bytes)):
                    return
                m = mode or ""
                if isinstance(m, str) and any(ch in m for ch in "wax+"):
                    ev.append(("open-w", os.path.abspath(os.fsdecode(path)), m))
            elif event in ("os.rename", "os.remove", "os.rmdir", "os.mkdir", "shutil.rmtree", "os.truncate", "shutil.move", "shutil.copyfile"):
                paths = [os.path.abspath(os.fsdecode(a)) for a in args if isinstance(a, (str, bytes))]
                ev.append((event, *paths))
        except Exception:
            pass

    sys.addaudithook(hook)
    _installed.add("fs")


class fs_recording:
    def __enter__(self):
        self._old = _FS["events"]
        _FS["events"] = []
        return _FS["events"]

    def __exit__(self, *a):
        _FS["events"] = self._old
        return False

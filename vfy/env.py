"""Worker-side environment: scratch cwd with a listener-free config, Lark memo,
construction helpers for CsvPath / CsvPaths under a chosen error policy.

Everything here runs inside a worker process whose PYTHONPATH puts a snapshot of
${VERIF_REPO:-/repo}/csvpath first, so `import csvpath` is the code under test.
"""
import io
import os
import sys

GUARD = "CSVPATH_VERIF"

CONFIG_TMPL = """[csvpath_files]
extensions = txt, csvpath, csvpaths

[csv_files]
extensions = txt, csv, tsv, dat, tab, psv, ssv

[errors]
csvpath = {csvpath_policy}
csvpaths = {csvpaths_policy}

[logging]
csvpath = error
csvpaths = error
log_file = logs/csvpath.log
log_files_to_keep = 2
log_file_size = 52428800

[config]
path = config/config.ini

[cache]
path = cache

[functions]
imports = {imports}

[results]
archive = archive
transfers = transfers

[inputs]
files = {files_dir}
csvpaths = {paths_dir}
on_unmatched_file_fingerprints = halt
"""

DEFAULT_POLICY = ["raise", "collect", "stop", "fail", "print"]


def require_guard():
    if os.environ.get(GUARD) != "1":
        raise RuntimeError(f"vfy hooks refuse to run without {GUARD}=1")


def write_config(root=".", csvpath_policy=None, csvpaths_policy=None, imports="", files_dir="inputs/named_files", paths_dir="inputs/named_paths"):
    """(re)write config/config.ini under root. Policies need >= 2 entries to be
    expressible in an ini file (Config._get only splits on a comma)."""
    cp = csvpath_policy or DEFAULT_POLICY
    cps = csvpaths_policy or ["raise", "collect"]
    if len(cp) < 2 or len(cps) < 2:
        raise ValueError("ini-expressible policies need at least two flags")
    os.makedirs(os.path.join(root, "config"), exist_ok=True)
    with open(os.path.join(root, "config", "config.ini"), "w") as f:
        f.write(CONFIG_TMPL.format(csvpath_policy=", ".join(cp), csvpaths_policy=", ".join(cps), imports=imports, files_dir=files_dir, paths_dir=paths_dir))


def setup_scratch(root):
    os.makedirs(root, exist_ok=True)
    os.chdir(root)
    write_config(".")


_MEMO = {}
_memo_installed = False


def install_lark_memo():
    """Memoise lark.Lark(grammar, **opts) by (grammar text, options). The parser
    object is stateless between parse() calls; the key is the grammar string the
    code under test passes, so a changed grammar is a different key."""
    global _memo_installed
    if _memo_installed or os.environ.get("VERIF_NO_LARK_MEMO") == "1":
        return
    import lark
    import csvpath.matching.lark_parser as lp
    import csvpath.matching.util.lark_print_parser as pp

    real = lark.Lark

    class MemoLark:
        def __new__(cls, grammar, **kw):
            k = (grammar, tuple(sorted((a, repr(b)) for a, b in kw.items())))
            if k not in _MEMO:
                _MEMO[k] = real(grammar, **kw)
            return _MEMO[k]

    lp.Lark = MemoLark
    pp.Lark = MemoLark
    _memo_installed = True


class CapturePrinter:
    """a Printer that keeps what it is sent, per named printout, in order"""

    def __init__(self):
        self.lines = []
        self.named = []
        self._last = None

    @property
    def last_line(self):
        return self._last

    @property
    def lines_printed(self):
        return len(self.named)

    def print(self, string):
        self.print_to("default", string)

    def print_to(self, name, string):
        self.lines.append(string)
        self.named.append((name if name else "default", string))
        self._last = string


def make_config(policy=None):
    from csvpath.util.config import Config

    cfg = Config()
    if policy is not None:
        cfg.csvpath_errors_policy = list(policy)
    return cfg


def new_csvpath(policy=None, printer=True, print_default=False, **kw):
    """a standalone CsvPath whose error policy is `policy` from construction on
    (ErrorCommsManager captures the policy list in CsvPath.__init__)."""
    from csvpath import CsvPath

    cfg = make_config(policy)
    c = CsvPath(config=cfg, print_default=print_default, **kw)
    cap = None
    if printer:
        cap = CapturePrinter()
        c.add_printer(cap)
    return c, cap


def new_csvpaths(**kw):
    from csvpath import CsvPaths

    return CsvPaths(print_default=False, **kw)


class quiet_stdout:
    """parse() re-adds a StdOutPrinter (print-mode default); keep it off the pipe"""

    def __init__(self, capture=False):
        self.capture = capture

    def __enter__(self):
        self._old = sys.stdout
        self.buf = io.StringIO()
        sys.stdout = self.buf
        return self

    def __exit__(self, *a):
        sys.stdout = self._old
        return False

"""C10 - every run gets its own run directory and never touches an earlier run's results.

History monitor: sequences of named-paths runs over {2 groups} x {new, reused
CsvPaths instance} x {run method} x {virtual clock: same second, +1s, on to the
next 13:00:00, on to the next 00:00:01}. After each run: tree+hash snapshot
diff of archive/ (earlier runs byte-identical, the new run directory is new and
under its own group), file-system audit events (no write/rename/remove inside an
earlier run directory), chronological ordering of directory names, and the
':last' / ':first' results references against the history model.
"""
import datetime as _dt
import itertools
import os
import random

LEVEL = "exploration"
DECIDING = ["runs", "fs_events"]
MIN_DECIDED_RATIO = 0.9
RULE = (
    "histories of runs; step = (group g1|g1_b, new|reused instance, clock same|+1s|to-13:00|to-00:00:01|to-Dec-31-23:59:58, method drawn so that adjacent "
    "method pairs vary). quick: all histories of length 3 (first step canonical: new instance), thorough: all of length 4 plus random "
    "histories of length 5-10. Non-trivial: length >= 2; distinct = distinct (step tuples incl. methods)."
)
ASSUMPTIONS = [
    "the wall clock read by CsvPaths.current_run_time and the manifests is replaced by a virtual clock (datetime rebound in csvpath.csvpaths and csvpath.managers.metadata)",
    "archive/manifest.json (the global list of runs, appended by design) is not part of any run's results",
]

GROUPS = ["g1", "g1_b"]  # (one name is a prefix of the other: archive/g1 and archive/g1_b)
INST = ["new", "reused"]
CLOCK = ["same", "+1s", "to13", "to00", "toNYE"]
START = _dt.datetime(2025, 3, 10, 7, 30, 0, tzinfo=_dt.timezone.utc)

_NOW = {"t": START}


def install_clock():
    import csvpath.csvpaths as m1
    import csvpath.managers.metadata as m2

    if getattr(m1, "_vfy_clock", False):
        return
    real = _dt.datetime

    class _Meta(type(real)):
        def __instancecheck__(cls, obj):  # any real datetime is a datetime for the code under test
            return isinstance(obj, real)

    class VDateTime(real, metaclass=_Meta):
        @classmethod
        def now(cls, tz=None):
            t = _NOW["t"]
            return t if tz is not None else t.replace(tzinfo=None)

    m1.datetime = VDateTime
    m2.datetime = VDateTime
    m1._vfy_clock = True


def advance(t, step):
    if step == "same":
        return t
    if step == "+1s":
        return t + _dt.timedelta(seconds=1)
    if step == "to13":
        n = t.replace(hour=13, minute=0, second=0)
        if n <= t:
            n += _dt.timedelta(days=1)
        return n
    if step == "toNYE":
        # on to the last second but one of the year (the days around New Year belong to another ISO week-year)
        n = t.replace(month=12, day=31, hour=23, minute=59, second=58)
        if n <= t:
            n = n.replace(year=n.year + 1)
        return n
    n = t.replace(hour=0, minute=0, second=1) + _dt.timedelta(days=1)
    return n


def histories(tier, seed):
    from vfy import cps

    steps = list(itertools.product(GROUPS, INST, CLOCK))
    first = [(g, "new", c) for g in GROUPS for c in ("same", "to13", "to00", "toNYE")]
    L = 3 if tier == "quick" else 4
    k = 0
    for f in first:
        for rest in itertools.product(steps, repeat=L - 1):
            h = [f] + list(rest)
            # methods: deterministic rotation so that adjacent method pairs vary across histories
            ms = [(cps.METHODS + ["collect_paths#m1"])[(k + 5 * i + (i * i)) % 7] for i in range(L)]  # '#m1': one member of the group only
            k += 1
            yield [list(s) + [m] for s, m in zip(h, ms)]
    r = random.Random(f"{seed}:C10:long")
    for _ in range(60 if tier == "quick" else 1500):
        n = r.randint(5, 10)
        yield [[r.choice(GROUPS), r.choice(INST), r.choice(CLOCK + ["+1s", "same"]), r.choice(cps.METHODS + ["collect_paths#m1"])] for _ in range(n)]


def plan(tier, seed):
    n = 16
    return [{"shard": i, "nshards": n, "timeout": 7200} for i in range(n)]


def run_history(h, agg):
    from vfy import cps, env, hooks

    cps.reset_sandbox()
    cs = env.new_csvpaths()
    cps.add_file(cs, "data", [["a", "b"], ["1", "x"], ["2", "y"], ["3", "z"]])
    cs.paths_manager.add_named_paths(name=GROUPS[0], paths=["~ id: m0 ~ $[*][yes()]", '~ id: m1 ~ $[1*][#a == "2"]'])
    cs.paths_manager.add_named_paths(name=GROUPS[1], paths=["~ id: m0 ~ $[*][push(\"s\", #a)]"])
    inst = None
    observer = env.new_csvpaths()  # a long-lived instance that only ever resolves references
    _NOW["t"] = START
    runs = []  # dicts: group, time, dir, method
    w = {"history": h}
    for si, (g, ins, clk, method) in enumerate(h):
        _NOW["t"] = advance(_NOW["t"], clk) if si > 0 or clk != "same" else START
        t = _NOW["t"]
        if ins == "new" or inst is None:
            inst = env.new_csvpaths()
        before = cps.tree("archive") if os.path.isdir("archive") else {}
        dirs_before = {gg: set(cps.run_dirs(gg)) for gg in GROUPS}
        pathsname = g
        if "#" in method:
            # the run of a single member, named as group#identity: still a run of that group
            method, ident_ = method.split("#")
            if g == GROUPS[0]:
                pathsname = f"{g}#{ident_}"
        with hooks.fs_recording() as fsev:
            lines, exc = cps.run_method(inst, method, pathsname, "data")
        agg.count("runs")
        agg.count("fs_events", len(fsev))
        w["step"] = si
        if exc is not None:
            w["exc"] = f"{type(exc).__name__}: {str(exc)[:300]}"
            return "run-raises", w
        after = cps.tree("archive")
        # ---- the new run directory
        new_dirs = {gg: sorted(set(cps.run_dirs(gg)) - dirs_before[gg]) for gg in GROUPS}
        other = [gg for gg in GROUPS if gg != g][0]
        if new_dirs[other]:
            w["new_dirs"] = new_dirs
            return "run-directory-under-another-group", w
        if len(new_dirs[g]) != 1:
            w["new_dirs"] = new_dirs
            w["existing"] = {gg: sorted(dirs_before[gg]) for gg in GROUPS}
            return "no-fresh-run-directory" if not new_dirs[g] else "several-run-directories", w
        rdir = new_dirs[g][0]
        # ---- earlier runs byte-identical
        for path, hsh in before.items():
            if path == "manifest.json":
                continue
            if after.get(path) != hsh:
                w["file"] = path
                w["change"] = "removed" if path not in after else "modified"
                return "earlier-run-file-" + w["change"], w
        prev_run_roots = [os.path.abspath(os.path.join("archive", r_["group"], r_["dir"])) + os.sep for r_ in runs]
        for ev in fsev:
            for p in ev[1:]:
                if isinstance(p, str) and any(p.startswith(root) for root in prev_run_roots):
                    w["fs_event"] = list(ev)
                    return "fs-write-into-earlier-run", w
        runs.append({"group": g, "time": t, "dir": rdir, "method": method, "seq": len(runs)})
        # ---- chronological order of names for runs started in different seconds
        mine = [r_ for r_ in runs if r_["group"] == g]
        by_name = sorted(mine, key=lambda r_: r_["dir"])
        for a, b in zip(by_name, by_name[1:]):
            if a["time"] != b["time"] and a["time"] > b["time"]:
                w["names_in_order"] = [r_["dir"] for r_ in by_name]
                w["start_times"] = [str(r_["time"]) for r_ in by_name]
                return "directory-names-not-chronological", w
        # ---- :last / :first
        for prefix in ("2025-03-", "20", t.strftime("%Y-%m-%d_")):
            cands = [r_ for r_ in mine if r_["dir"].startswith(prefix)]
            if not cands:
                continue
            for which, pick in ((":last", max(cands, key=lambda r_: (r_["time"], r_["seq"]))), (":first", min(cands, key=lambda r_: (r_["time"], r_["seq"])))):
                if sum(1 for r_ in cands if r_["time"] == pick["time"]) > 1:
                    # the statement orders runs started in *different* seconds; a tie at the extreme is not decided
                    agg.count("reference_ties_skipped")
                    continue
                for who, resolver in (("the instance that ran", inst), ("a long-lived instance that resolved references before", observer)):
                    agg.count("references_checked")
                    ref = f"${g}.results.{prefix}{which}.m0"
                    want = os.path.join("archive", g, pick["dir"], "m0", "data.csv")
                    try:
                        got = resolver.file_manager.get_named_file(ref)
                        err = None
                    except Exception as e:  # noqa
                        got, err = None, type(e).__name__
                    if os.path.exists(want):
                        if got is None or os.path.normpath(got) != os.path.normpath(want):
                            w["reference"] = ref
                            w["resolved_by"] = who
                            w["resolved_to"] = got or err
                            w["most_recent" if which == ":last" else "earliest"] = want
                            w["runs"] = [(r_["dir"], str(r_["time"]), r_["method"]) for r_ in mine]
                            return "reference" + which.replace(":", "-"), w
                    elif got is not None and os.path.exists(got):
                        # the picked run collected nothing (no data.csv): resolving to some other run's data is wrong
                        w["reference"] = ref
                        w["resolved_by"] = who
                        w["resolved_to"] = got
                        w["expected_run_without_data"] = pick["dir"]
                        return "reference" + which.replace(":", "-") + "-wrong-run", w
    # ---- a reference resolved *inside* a run: the other group takes the most recent run of a group as its input,
    #      starting in the very second in which that run started (same directory name under another group)
    for g in GROUPS:
        mine = [r_ for r_ in runs if r_["group"] == g]
        if not mine:
            continue
        pick = max(mine, key=lambda r_: (r_["time"], r_["seq"]))
        if sum(1 for r_ in mine if r_["time"] == pick["time"]) > 1:
            continue
        want = os.path.join("archive", g, pick["dir"], "m0", "data.csv")
        if not os.path.exists(want):
            continue
        other = [gg for gg in GROUPS if gg != g][0]
        _NOW["t"] = pick["time"]
        ref = f"${g}.results.{pick['time'].strftime('%Y-%m-')}:last.m0"
        runner = env.new_csvpaths()
        with hooks.recording(agg) as rec:
            lines, exc = cps.run_method(runner, "collect_paths", other, ref)
        agg.count("references_resolved_inside_a_run")
        w["step"] = "final: " + other + " run on " + ref
        if exc is not None:
            w["exc"] = f"{type(exc).__name__}: {str(exc)[:300]}"
            return "reference-last-inside-a-run-raises", w
        first = rec.lines[0]["id"] if rec.lines else None
        read = [[str(v) for v in ev["line"]] for ev in rec.lines if ev["id"] == first]
        if read != cps.read_csv(want):
            w.update({"reference": ref, "read": read[:4], "most_recent_run_data": cps.read_csv(want)[:4], "runs": [(r_["dir"], str(r_["time"])) for r_ in mine]})
            return "reference-last-inside-a-run", w
        runs.append({"group": other, "time": pick["time"], "dir": None, "method": "collect_paths", "seq": len(runs)})
        break
    return None, None


def run_one(h, agg):
    res, w = run_history(h, agg)
    shape = "/".join("-".join(s) for s in h)
    if res is None:
        agg.held(shape, len(h) >= 2, sample={"history": h})
    else:
        agg.violation(res, {"history": h}, w, shape)


def run_shard(spec, agg):
    from vfy import hooks

    install_clock()
    hooks.install_fs_audit()
    hooks.install_line_hook()
    for i, h in enumerate(histories(spec["tier"], spec["seed"])):
        if i % spec["nshards"] != spec["shard"]:
            continue
        run_one(h, agg)


def replay(case, agg):
    from vfy import hooks

    install_clock()
    hooks.install_fs_audit()
    hooks.install_line_hook()
    run_one(case["history"], agg)


def finish(m, tier):
    return {"exhaustive": True, "exhaustive_scope": f"all step sequences of length {3 if tier == 'quick' else 4} over (group, instance, clock) with a canonical first step; methods rotate deterministically; longer histories are random"}

"""C20 - data and values flow between csvpaths as declared.

(a) chains: serial runs of 2-4 generated filter members with 'source-mode:
preceding' on a suffix of the chain; the LineEvent hook shows which records each
member actually read; compared with the predecessor's collected lines / data.csv,
with the member manifest's actual_data_file, and with the composition of the
stages run standalone on each other's output. (b) references: after 1-3 runs of a
referenced group (virtual clock), a second group reads $name.variables.v[.key] and
$name.headers.h[.id]; the values it captured are compared with what the referenced
group's most recent run left. (c) a results reference used as the file name must
replay exactly the referenced member's data.csv.
"""
import os
import random

from vfy import lang

LEVEL = "exploration"
DECIDING = ["line_events", "chains_checked", "references_checked"]
MIN_DECIDED_RATIO = 0.5
RULE = (
    "random chains of 2-4 generated filter csvpaths (boolean components over the modelled functions) with source-mode preceding on every suffix "
    "start position x random files; random referenced groups (1-2 members writing plain, tracking-keyed and stack variables and collecting lines) "
    "run 1-3 times over different files before a referencing csvpath runs; results references ':last'/':first' used as file names. Non-trivial: a "
    "chain whose preceding members read at least one line, or a reference resolving to a non-empty value; distinct = distinct (member skeletons, suffix start, run count)."
)
ASSUMPTIONS = [
    "chains in which a predecessor collects nothing are not decided (there is no data.csv to read)",
    "referenced variables have distinct names across the members of the referenced group",
]


def plan(tier, seed):
    n = 16
    return [{"shard": i, "chains": 60 if tier == "quick" else 1200, "refs": 40 if tier == "quick" else 800, "timeout": 7200} for i in range(n)]


# ------------------------------------------------------------------ (a) chains
def gen_filter(r):
    g = lang.Gen(r, ())
    easy = [("fn", "yes", [], []), ("hdr", "a"), ("fn", "exists", [("hdr", "c")], []), ("fn", "gt", [("hdr", "a"), ("int", 1)], []),
            ("fn", "not", [("eq", ("hdr", "c"), ("str", "x"))], []), ("fn", "lt", [("hdr", "b"), ("int", 100)], []), ("fn", "in", [("hdr", "c"), ("str", "abc|x|Q|ab|zz")], [])]
    comps = [r.choice(easy) if r.random() < 0.65 else g.boolv(2) for _ in range(r.randint(1, 2))]
    return lang.tolist({"scan": r.choice(["*", "*", "1*", "0-6"]), "comps": comps, "mode": "AND"})


def standalone_lines(prog, path):
    from vfy import env

    c, cap = env.new_csvpath(["collect", "print"])
    text = f"${path}[{prog['scan']}][{' '.join(lang.txt(x) for x in prog['comps'])}]"
    try:
        return [[str(v) for v in ln] for ln in c.collect(text)], c
    except Exception as e:  # noqa
        return None, None


def check_chain(case, agg):
    from vfy import cps, env, hooks

    members, rows, start = case["members"], case["rows"], case["start"]
    cps.reset_sandbox()
    env.write_config(".", csvpath_policy=["collect", "print"])
    cs = env.new_csvpaths()
    cps.add_file(cs, "data", rows)
    origin = cs.file_manager.get_named_file("data")
    texts = []
    for j, p in enumerate(members):
        extra = "source-mode: preceding " if j >= start else ""
        texts.append(cps.member_text(p, ident=f"m{j}", extra_comment=extra))
    cs.paths_manager.add_named_paths(name="chain", paths=texts)
    with hooks.recording(agg) as rec:
        lines, exc = cps.run_method(cs, "collect_paths", "chain", "data")
    w = {"members": texts, "rows": rows}
    results = cs.results_manager.get_named_results("chain") or []
    rds = cps.run_dirs("chain")
    rd = rds[0] if rds else None
    by_id = {}
    for ev in rec.lines:
        by_id.setdefault(ev["id"], []).append(ev)
    # expected: composition of the stages
    os.makedirs("stages", exist_ok=True)
    cur_path = origin
    exp_collected = []
    drained = None  # index of a 'preceding' member whose predecessor collected nothing
    for j, p in enumerate(members):
        src = cur_path if j >= start else origin
        out, _c = standalone_lines(p, src)
        if out is None:
            return "undecided", None
        exp_collected.append((src, out))
        if not out:
            if j + 1 < len(members) and j + 1 >= start:
                drained = j + 1
                break
        sp = os.path.join("stages", f"s{j}.csv")
        with open(sp, "w", newline="") as f:
            f.write(lang.rows_to_text(out))
        cur_path = sp
    if drained is not None:
        # the predecessor collected nothing (it leaves no data.csv; the run may well end with an exception there):
        # whatever else happens, the member must not have read or collected any line, least of all the original file's
        agg.count("drained_chains")
        r_ = [x for x in results if x.csvpath.identity == f"m{drained}"]
        if r_ and rd:
            evs = by_id.get(id(r_[0].csvpath), [])
            mdir = os.path.join("archive", "chain", rd, f"m{drained}")
            dp = os.path.join(mdir, "data.csv")
            disk = cps.read_csv(dp) if os.path.exists(dp) else []
            if evs or disk:
                w.update({"member": drained, "read": [[str(v) for v in ev["line"]] for ev in evs][:5], "data.csv": disk[:5], "predecessor_collected": [], "run_exception": repr(exc)[:200] if exc else None})
                return "member-read-wrong-input-predecessor-collected-nothing", w
            mp = os.path.join(mdir, "manifest.json")
            if os.path.exists(mp):
                man = cps.read_json(mp)
                if os.path.normpath(man.get("actual_data_file") or "x") == os.path.normpath(origin):
                    w.update({"member": drained, "manifest_actual_data_file": man.get("actual_data_file")})
                    return "manifest-actual_data_file-names-the-original", w
        results = [x for x in results if x.csvpath.identity in [f"m{j}" for j in range(len(exp_collected))]]
        if exc is not None:
            agg.count("chains_checked")
            return None, None
    elif exc is not None:
        return "undecided", None
    for j, r_ in enumerate(results):
        evs = by_id.get(id(r_.csvpath), [])
        read = [[str(v) for v in ev["line"]] for ev in evs]
        src, out = exp_collected[j]
        want_read = cps.read_csv(src) if src != origin else [[str(v) for v in x] for x in cps.read_csv(origin)]
        # the member may stop before the end of its input (scan window): what it read is a prefix
        if read != want_read[: len(read)] or (len(read) < len(want_read) and not r_.csvpath.stopped):
            w.update({"member": j, "read": read[:5], "expected_input": want_read[:5], "preceding": j >= start})
            return "member-read-wrong-input", w
        mdir = os.path.join("archive", "chain", rd, f"m{j}")
        dp = os.path.join(mdir, "data.csv")
        disk = cps.read_csv(dp) if os.path.exists(dp) else []
        if disk != out:
            w.update({"member": j, "data.csv": disk[:5], "composition": out[:5]})
            return "chain-differs-from-composition", w
        man = cps.read_json(os.path.join(mdir, "manifest.json"))
        if j >= start and j > 0:
            want_file = os.path.join("archive", "chain", rd, f"m{j-1}", "data.csv")
            if os.path.normpath(man.get("actual_data_file") or "") != os.path.normpath(want_file):
                w.update({"member": j, "manifest_actual_data_file": man.get("actual_data_file"), "predecessor_data": want_file})
                return "manifest-actual_data_file", w
            if man.get("source_mode_preceding") is not True:
                w.update({"member": j, "source_mode_preceding": man.get("source_mode_preceding")})
                return "manifest-source_mode_preceding", w
        else:
            if os.path.normpath(man.get("actual_data_file") or "") != os.path.normpath(origin):
                w.update({"member": j, "manifest_actual_data_file": man.get("actual_data_file"), "origin": origin})
                return "manifest-actual_data_file-origin", w
    agg.count("chains_checked")
    return None, None


def make_chain(seed, shard, i):
    r = random.Random(f"{seed}:C20a:{shard}:{i}")
    n = r.choice([2, 2, 3, 4])
    members = [gen_filter(r) for _ in range(n)]
    rows = lang.data_rows(r, header_prob=1.0, nmax=8)
    return {"kind": "chain", "members": members, "rows": rows, "start": r.randint(1, n - 1)}


# ------------------------------------------------------------------ (b), (c) references
def check_refs(case, agg):
    from vfy import cps, env, hooks
    from vfy.props import c10

    c10.install_clock()
    r = random.Random(case["rseed"])
    cps.reset_sandbox()
    env.write_config(".", csvpath_policy=["collect", "print"])
    cs = env.new_csvpaths()
    nruns = case["nruns"]
    two = case["two_members"]
    src_texts = ['~ id: src ~ $[1*][ @total = add(#0, 0) @last_c = #2 @by.k = #1 @yr.2023 = #0 push("seen", #0) #1 ]']
    if two:
        # the second member looks at its own group's variables while the group is still running
        src_texts.append('~ id: other.v2 ~ $[1*][ @other_v = #0 @peek = $src.variables.total @late = line_number() yes() ]')
    cs.paths_manager.add_named_paths(name="src", paths=src_texts)
    use = '~ id: use ~ $[1*][ @t = $src.variables.total @lc = $src.variables.last_c @k = $src.variables.by.k @y = $src.variables.yr.2023 @st = $src.variables.seen ' + ("@hv = $src.headers.b.src @hl = $src.headers.c.src @hf = $src.headers.a.src " if two else "@hv = $src.headers.b @hl = $src.headers.c @hf = $src.headers.a ") + "]"
    cs.paths_manager.add_named_paths(name="user", paths=[use])
    # (the replaying group's name starts with the referenced group's name, and its first replay starts in the same
    # second as the run it refers to: the two run directories have the same name under different groups)
    cs.paths_manager.add_named_paths(name="src_replay", paths=["~ id: rp ~ $[*][yes()]"])
    c10._NOW["t"] = c10.START
    last = None
    w = {"runs": [], "two_members": two}
    for k in range(nruns):
        rows = [["a", "b", "c"]] + [[str(r.choice([1, 2, 5, 10, 12])), r.choice(["", "x", "yy", "z z"]), r.choice(["p", "q", "rr"])] for _ in range(r.randint(1, 5))]
        rows.insert(r.randint(1, len(rows)), [str(r.choice([3, 7])), r.choice(["w", "v v"]), "p"])  # at least one line is collected
        cps.add_file(cs, f"f{k}", rows, srcname=f"f{k}.csv")
        c10._NOW["t"] = c10.advance(c10._NOW["t"], "+1s")
        lines, exc = cps.run_method(cs, case["method"], "src", f"f{k}")
        t_src_last = c10._NOW["t"]
        if exc is not None:
            w["exc"] = f"{type(exc).__name__}: {str(exc)[:200]}"
            return "referenced-run-raises", w
        # (the results of THIS run: the last len(members) entries, should an implementation keep older ones around)
        res = cs.results_manager.get_named_results("src")[-len(src_texts)]
        last = {"vars": dict(res.csvpath.variables), "rows": rows, "collected": [ln for ln in rows[1:] if ln[1].strip() != ""]}
        w["runs"].append(rows)
    cps.add_file(cs, "ufile", [["a"], ["1"], ["2"]], srcname="ufile.csv")
    # ---- read through a csvpath of the same instance and through the results manager, before any other run starts
    allres = cs.results_manager.get_named_results("src")[-len(src_texts) :]
    final = {}
    for r_ in reversed(allres):
        final.update(r_.csvpath.variables)
    direct = cs.csvpath()
    names = ["total", "last_c"] + (["late", "other_v"] if two else [])
    dtext = "$" + cs.file_manager.get_named_file("ufile") + "[1*][ " + " ".join(f"@r_{n_} = $src.variables.{n_}" for n_ in names) + " ]"
    try:
        direct.config.csvpath_errors_policy = ["collect", "print"]
        direct.fast_forward(dtext)
        derr = [str(e.error)[:160] for e in (direct.errors or [])]
    except Exception as e:  # noqa
        derr = [f"{type(e).__name__}: {str(e)[:160]}"]
    if derr:
        w["errors"] = derr
        w["csvpath"] = dtext
        return "reference-through-csvpath()-fails", w
    agg.count("references_checked", len(names))
    for n_ in names:
        if direct.variables.get(f"r_{n_}") != final.get(n_):
            w.update({"variable": n_, "got": direct.variables.get(f"r_{n_}"), "most_recent_run_left": final.get(n_), "read_by": "cs.csvpath() after the runs"})
            return "reference-value-stale:" + n_, w
    gv = cs.results_manager.get_variables("src")
    for n_ in names:
        if gv.get(n_) != final.get(n_):
            w.update({"variable": n_, "got": gv.get(n_), "most_recent_run_left": final.get(n_), "read_by": "results_manager.get_variables"})
            return "get_variables-stale:" + n_, w
    c10._NOW["t"] = c10.advance(c10._NOW["t"], "+1s")
    with hooks.recording(agg) as rec:
        lines, exc = cps.run_method(cs, "fast_forward_paths", "user", "ufile")
    if exc is not None:
        w["exc"] = f"{type(exc).__name__}: {str(exc)[:200]}"
        return "referencing-run-raises", w
    ures = cs.results_manager.get_named_results("user")[0]
    if ures.errors:
        w["errors"] = [str(e.error)[:200] for e in ures.errors[:3]]
        if case["method"].startswith("fast_forward") or case["method"] == "next_paths" or case["method"] == "next_by_line" or case["method"] == "fast_forward_by_line":
            # header references need collected lines; a run method that collects nothing leaves nothing to refer to
            return "undecided", None
        return "reference-error", w
    got = ures.csvpath.variables
    agg.count("references_checked", 8)
    want = {
        "t": last["vars"].get("total"),
        "lc": last["vars"].get("last_c"),
        "k": (last["vars"].get("by") or {}).get("k"),
        "y": (last["vars"].get("yr") or {}).get("2023"),  # a tracking key made of digits is still a string key
        "st": last["vars"].get("seen"),
        "hv": [ln[1].strip() for ln in last["collected"]],
        "hl": [ln[2].strip() for ln in last["collected"]],  # the last column
        "hf": [ln[0].strip() for ln in last["collected"]],  # the first column
    }
    for name, v in want.items():
        g = got.get(name)
        if isinstance(g, tuple):
            g = list(g)
        if g != v:
            w.update({"variable": name, "got": g, "most_recent_run_left": v})
            return "reference-value:" + name, w
    # ---- (c) results reference used as the file name
    if case["method"] in ("collect_paths", "collect_by_line"):
        rds = cps.run_dirs("src")
        scenarios = [(":last", rds[-1], "src_replay", "src"), (":first", rds[0], "src_replay", "src")]
        if not two:
            # a replay inside the referenced group itself: the run in progress is not its own ':last'
            scenarios.append((":last", rds[-1], "src", "src"))
        else:
            # a member whose identity has a dot in it
            scenarios.append((":last", rds[-1], "src_replay", "other.v2"))
        for which, pick, runner, member_ in scenarios:
            ref = f"$src.results.2025-03-{which}.{member_}"
            if runner == "src_replay" and which == ":last":
                later = c10._NOW["t"]
                c10._NOW["t"] = t_src_last  # same second as the most recent run of the referenced group
            else:
                c10._NOW["t"] = c10.advance(max(c10._NOW["t"], later), "+1s")
            with hooks.recording(agg) as rec2:
                lines, exc = cps.run_method(cs, "collect_paths", runner, ref)
            if exc is not None:
                w["exc"] = f"{type(exc).__name__}: {str(exc)[:200]}"
                w["reference"] = ref
                w["run_by_group"] = runner
                return "results-reference-raises" + ("-same-group" if runner == "src" else ""), w
            want_rows = cps.read_csv(os.path.join("archive", "src", pick, member_, "data.csv"))
            read = [[str(v) for v in ev["line"]] for ev in rec2.lines]
            agg.count("references_checked")
            if read != want_rows:
                w.update({"reference": ref, "run_by_group": runner, "read": read[:5], "referenced_data.csv": want_rows[:5], "run_dirs": rds})
                return "results-reference-replay" + which.replace(":", "-") + ("-same-group" if runner == "src" else ""), w
    return None, None


def make_refs(seed, shard, i):
    from vfy import cps

    two = i % 4 == 3
    method = ["collect_paths", "collect_by_line", "collect_paths", "fast_forward_paths"][i % 4]
    if two and (i // 4) % 2 == 0:
        method = ["collect_paths", "collect_by_line"][(i // 8) % 2]  # (so that two-member groups are also replayed by reference)
    return {"kind": "refs", "rseed": f"{seed}:C20b:{shard}:{i}", "nruns": 1 + i % 3, "two_members": two, "method": method}


def run_one(case, agg):
    if case["kind"] == "chain":
        res, w = check_chain(case, agg)
        shape = "chain|" + "||".join(lang.prog_shape(p) for p in case["members"]) + f"|{case['start']}"
    else:
        res, w = check_refs(case, agg)
        shape = f"refs|{case['nruns']}|{case['two_members']}|{case['method']}|{case['rseed']}"
    if res is None:
        agg.held(shape, True, sample={k: v for k, v in case.items() if k in ("kind", "start", "nruns", "method")})
    elif res == "undecided":
        agg.skipped("predecessor collected nothing / method collects nothing")
    else:
        agg.violation(res, case, w, shape)


def run_shard(spec, agg):
    from vfy import env, hooks

    hooks.install_line_hook()
    try:
        for i in range(spec["chains"]):
            run_one(make_chain(spec["seed"], spec["shard"], i), agg)
        for i in range(spec["refs"]):
            run_one(make_refs(spec["seed"], spec["shard"], i), agg)
    finally:
        env.write_config(".")


def replay(case, agg):
    from vfy import hooks

    hooks.install_line_hook()
    run_one(case, agg)

"""C15 - comment mode settings take effect; matched and unmatched partition the file.

Relational monitors over pairs of real runs (with / without the generated outer
comment) observed by the LineEvent hook, a capture printer and captured stdout,
plus a partition check of collected vs unmatched lines against the records the
LineEvents show were read.
"""
import random

from vfy import lang

LEVEL = "exploration"
DECIDING = ["line_events"]
MIN_DECIDED_RATIO = 0.9
FEATURES = ("assign", "print", "control", "agg")
RULE = (
    "random programs x random files x every combination of return-mode {absent, matches, no-matches}, unmatched-mode {absent, keep, no-keep}, "
    "run-mode {absent, run, no-run}, print-mode {absent, default, no-default}, logic-mode {absent, AND, OR} (sampled uniformly) x 0-3 extra "
    "'key: value' fields with arbitrary value text (any characters except ~ [ ] $ and ':') and leading free text x comment placed before / after / both x entry point {collect(text), collect(text, nexts=1|2), next(text), parse+next, parse+collect, fast_forward(text)}. "
    "Non-trivial: at least one mode or metadata field present and at least one line scanned; distinct = distinct (mode tuple, field shapes, placement, program skeleton)."
)
ASSUMPTIONS = [
    "a value runs up to the word that precedes the next colon (documented design); generated values contain no colon",
    "blank records are ignored when comparing collected+unmatched with the records read",
]

VALUE_CHARS = list("abcXYZ019 _-") + list(".,;!?()'\"/\\|&%#@*+=<>^{}") + ["é", "漢", "\n", "\t"]
MODES = {
    "return-mode": [None, "matches", "no-matches"],
    "unmatched-mode": [None, "keep", "no-keep"],
    "run-mode": [None, "run", "no-run"],
    "print-mode": [None, "default", "no-default"],
    "logic-mode": [None, "AND", "OR"],
}


def gen_value(r):
    n = r.choice([1, 2, 4, 8, 15])
    s = "".join(r.choice(VALUE_CHARS) for _ in range(n)).strip()
    return s or "v"


def gen_comment(r):
    modes = {k: r.choice(v) for k, v in MODES.items()}
    if r.random() < 0.3:
        for k in modes:
            if r.random() < 0.6:
                modes[k] = None
    fields = []
    for i in range(r.randint(0, 3)):
        fields.append((r.choice(["owner", "description", "ticket", "my-key", "k_2", "Version"]) + (str(i) if r.random() < 0.3 else ""), gen_value(r)))
    free = r.choice(["", "", "a plain remark ", "checks the orders file; see README ", "été 漢字 remark\n"])
    items = [(k, v) for k, v in modes.items() if v is not None] + fields
    r.shuffle(items)
    return {"modes": modes, "fields": fields, "free": free, "items": items}


def render_comment(cm, items=None):
    items = cm["items"] if items is None else items
    body = cm["free"]
    for k, v in items:
        body += f"{k}: {v} "
    return "~ " + body + "~"


def plan(tier, seed):
    n = 16
    per = 700 if tier == "quick" else 14000
    return [{"shard": i, "n": per, "timeout": 3600} for i in range(n)]


def make_case(seed, shard, i):
    r = random.Random(f"{seed}:C15:{shard}:{i}")
    prog, rows = lang.gen_case(r, FEATURES)
    prog = lang.tolist(prog)
    prog["mode"] = "AND"
    if r.random() < 0.08 and rows:
        # the file ends with a record of one cell holding nothing but whitespace (a record all the same)
        rows = rows + [[r.choice([" ", "", "\t"])]]
    cm = gen_comment(r)
    placement = r.choice(["before", "before", "after", "both"])
    # a caller who set defaults on the instance before parsing: the comment's own settings still take effect
    preset = {}
    if r.random() < 0.3:
        for mode, attr in (("return-mode", "collect_when_not_matched"), ("unmatched-mode", "unmatched_available"), ("logic-mode", "OR")):
            if cm["modes"][mode] is not None and r.random() < 0.7:
                preset[attr] = r.random() < 0.5
    # the entry point the caller uses; the csvpath text is handed to it directly (parsed lazily) or parsed first
    method = r.choice(["collect", "collect", "next", "parse+next", "fast_forward", "parse+collect", "collect-nexts-1", "collect-nexts-2"])
    # a caller with nothing but the printer every CsvPath starts with, and a print() that also runs a function (its
    # documented second argument): what print-mode leaves of the printers must not change what the run does
    rb = random.Random(f"{seed}:C15bare:{shard}:{i}")
    bare = None
    if rb.random() < 0.15:
        bare = rb.choice(['print("p $.csvpath.line_number", push("pp", #0))', 'gt(line_number(), 1) -> print("bye", stop())', 'print("n", push("pp", line_number()))'])
    return {"prog": prog, "rows": rows, "comment": cm, "placement": placement, "preset": preset, "method": method, "bare": bare}


_READS = {"n": 0}


def install_read_hook():
    from csvpath import CsvPath

    if getattr(CsvPath, "_vfy_reads", False):
        return
    orig = CsvPath.track_line

    def track_line(self, line):
        _READS["n"] += 1
        return orig(self, line)

    CsvPath.track_line = track_line
    CsvPath._vfy_reads = True


def do_run(text, agg, capture_stdout=True, preset=None, method="collect", bare=False):
    from vfy import diffrun, env, hooks

    install_read_hook()
    _READS["n"] = 0
    c, cap = env.new_csvpath(["collect", "print"], printer=not bare, print_default=True)  # (as a caller gets it: the standard-out printer first)
    # a printer that is not standard out although it derives from the standard-out printer class (the library's LogPrinter)
    import logging
    from csvpath.util.printer import LogPrinter

    class _Sink(logging.Handler):
        def __init__(self):
            super().__init__()
            self.msgs = []

        def emit(self, record):
            self.msgs.append(record.getMessage())

    lg = logging.Logger("vfy-c15")
    sink = _Sink()
    lg.addHandler(sink)
    if not bare:
        c.add_printer(LogPrinter(lg))
    for attr, val in (preset or {}).items():
        setattr(c, attr, val)
    with env.quiet_stdout() as q, hooks.recording(agg) as rec:
        try:
            if method == "collect":
                lines = c.collect(text)
            elif method.startswith("collect-nexts-"):
                lines = c.collect(text, nexts=int(method[-1]))  # the documented limit: stop after that many returned lines
            elif method == "next":
                lines = [ln[:] for ln in c.next(text)]
            elif method == "parse+next":
                c.parse(text)
                lines = [ln[:] for ln in c.next()]
            elif method == "parse+collect":
                c.parse(text)
                lines = c.collect()
            else:
                c.fast_forward(text)
                lines = None
            exc = None
        except Exception as e:  # noqa
            lines, exc = None, f"{type(e).__name__}: {str(e)[:300]}"
    return {
        "c": c,
        "lines": lines,
        "exc": exc,
        "rec": rec,
        "printed": list(cap.lines) if cap is not None else [],
        "logged": list(sink.msgs),
        "stdout": q.buf.getvalue(),
        "records_read": _READS["n"],
        "trace": [(ev["pln"], ev["considered"], bool(ev["ret"]), diffrun.norm_vars(ev["vars"]), ev["valid"], ev["stopped"], ev["match"], ev["scan"]) for ev in rec.lines],
    }


def run_case(case, agg):
    prog, rows, cm, placement = case["prog"], case["rows"], case["comment"], case["placement"]
    with open("m.csv", "w", newline="") as f:
        f.write(lang.rows_to_text(rows))
    bare = case.get("bare")
    body = f"$m.csv[{prog['scan']}][{' '.join(lang.txt(c) for c in prog['comps'])}" + (f" {bare}" if bare else "") + "]"
    if bare:
        agg.count("runs_with_only_the_default_printer")
    modes = cm["modes"]
    OR = modes["logic-mode"] == "OR"
    base_text = ("~ logic-mode: OR ~ " if OR else "") + body
    if placement == "before":
        text = render_comment(cm) + "\n" + body
    elif placement == "after":
        text = body + "\n" + render_comment(cm)
    else:
        half = len(cm["items"]) // 2
        text = render_comment(cm, cm["items"][:half]) + " " + body + " " + render_comment(dict(cm, free=""), cm["items"][half:])
    w = {"csvpath": text, "rows": rows, "modes": modes}
    if case.get("preset"):
        w["set_on_the_instance_before_parsing"] = case["preset"]
        agg.count("runs_with_caller_defaults_overridden_by_comment")
    method = case.get("method", "collect")
    w["entry_point"] = method
    agg.count("entry:" + method)
    base = do_run(base_text, agg, method=method, bare=bool(bare))
    run = do_run(text, agg, preset=case.get("preset"), method=method, bare=bool(bare))
    case["_scanned"] = any(ev["considered"] for ev in base["rec"].lines)
    if base["exc"]:
        return "undecided", None
    if run["exc"]:
        w["exc"] = run["exc"]
        return "exception-with-comment", w
    c = run["c"]
    # ---- metadata fields available, values as written
    want = {}
    for k, v in cm["items"]:
        want[k] = v.strip()
    for k, v in want.items():
        got = c.metadata.get(k)
        if got != v:
            w["field"] = k
            w["got"] = got
            w["want"] = v
            return "metadata-value", w
    # ---- scan and match parts untouched by the comment
    if c.scan != base["c"].scan or c.match != base["c"].match:
        w["scan"] = [base["c"].scan, c.scan]
        w["match"] = [base["c"].match, c.match]
        return "comment-leaks-into-csvpath", w
    # ---- run-mode
    if modes["run-mode"] == "no-run":
        if run["records_read"]:
            w["records_read"] = run["records_read"]
            return "no-run-reads-the-file", w
        if run["rec"].lines or run["lines"] or run["printed"] or {k: v for k, v in c.variables.items() if not k.startswith("_intx")}:
            w["line_events"] = len(run["rec"].lines)
            w["lines"] = run["lines"]
            return "no-run-still-ran", w
        return None, None
    inverted = modes["return-mode"] == "no-matches"
    # ---- "the scanned lines": the records the scan part denotes (blank records apart), as far as the run read
    from vfy import model as _model

    kind_, val_ = _model.parse_scan(prog["scan"])
    denoted = [i for i, row in enumerate(rows[: run["records_read"]]) if len(row) > 0 and (kind_ == "all" or (kind_ == "from" and i >= val_) or (kind_ == "set" and i in val_))]
    offered = [ev["pln"] for ev in run["rec"].lines if ev["considered"]]
    if offered != denoted:
        w["scan"] = prog["scan"]
        w["lines_the_scan_denotes_(read_so_far)"] = denoted
        w["lines_offered_to_the_match_part"] = offered
        return "scanned-lines", w
    # (with collect(nexts=n) the return mode decides where the run stops: the two runs are not comparable line by line)
    limited = method.startswith("collect-nexts-")
    if not limited:
        # ---- same run apart from the return decision
        bt, rt = base["trace"], run["trace"]
        if len(bt) != len(rt):
            w["trace_len"] = [len(bt), len(rt)]
            return "mode-changes-the-run", w
        for x, y in zip(bt, rt):
            xr = x[2]
            if inverted and x[1]:
                xr = not xr
            if (x[0], x[1], xr) + x[3:] != y:
                w["base_event"] = x
                w["event"] = y
                return "return-mode" if (x[:2] + x[3:] == y[:2] + y[3:]) else "mode-changes-the-run", w
        # ---- returned lines: complement of the default result within the scanned lines
        scanned = [(ev["pln"], ev["line"]) for ev in base["rec"].lines if ev["considered"]]
        base_ret = {ev["pln"] for ev in base["rec"].lines if ev["ret"]}
        want_lines = [ln for (p, ln) in scanned if ((p not in base_ret) if inverted else (p in base_ret))]
        if run["lines"] is not None and run["lines"] != want_lines:
            w["got"] = run["lines"][:6]
            w["want"] = want_lines[:6]
            return "returned-lines", w
    # ---- unmatched-mode keep: collected + unmatched partition the records read
    unmatched = c.unmatched
    if modes["unmatched-mode"] == "keep" and "collect" in method:
        # "the records read": every record of the file up to where the run stopped reading (counted at track_line),
        # whether or not the scan part offered it to the matcher
        read = [(i, [str(x) for x in row]) for i, row in enumerate(rows[: run["records_read"]]) if len(row) > 0]
        ret = {ev["pln"] for ev in run["rec"].lines if ev["ret"]}
        want_un = [ln for (p, ln) in read if p not in ret]
        got_un = [ln for ln in (unmatched or []) if len(ln) > 0]
        if got_un != want_un:
            w["unmatched"] = got_un[:6]
            w["want_unmatched"] = want_un[:6]
            return "unmatched-partition", w
        if sorted(map(tuple, got_un + run["lines"])) != sorted(tuple(ln) for (_, ln) in read):
            w["collected_plus_unmatched"] = len(got_un) + len(run["lines"])
            w["records_read"] = len(read)
            return "unmatched-partition", w
    elif unmatched:
        w["unmatched"] = unmatched[:4]
        return "unmatched-kept-without-keep", w
    if limited:
        return None, None  # (what the two runs print depends on where each stops)
    # ---- printing: the printers see the same; only standard out depends on print-mode
    if run["printed"] != base["printed"]:
        w["printed"] = [base["printed"][:3], run["printed"][:3]]
        return "print-mode-changes-printouts", w
    if run["logged"] != base["logged"]:
        w["log_printer"] = [base["logged"][:3], run["logged"][:3]]
        return "print-mode-changes-what-a-log-printer-receives", w
    out_lines = run["stdout"].splitlines()
    if modes["print-mode"] == "no-default":
        if run["stdout"].strip():
            w["stdout"] = run["stdout"][:200]
            return "no-default-still-prints", w
    elif bare:
        if run["stdout"] != base["stdout"]:
            w["stdout"] = [base["stdout"][:200], run["stdout"][:200]]
            return "default-printer-differs", w
    else:
        exp = "\n".join(run["printed"]).splitlines()
        if out_lines != exp:
            w["stdout"] = out_lines[:4]
            w["printed"] = exp[:4]
            return "default-printer-differs", w
    return None, None


def shape_of(case):
    cm = case["comment"]
    fshape = "/".join("".join("a" if ch.isalnum() else ("w" if ch.isspace() else "p") for ch in v)[:6] for _, v in cm["fields"])
    return "|".join(f"{k[:3]}={v}" for k, v in cm["modes"].items()) + f"|{fshape}|{case['placement']}|{bool(cm['free'])}|{sorted((case.get('preset') or {}).items())}|{case.get('method')}|" + lang.prog_shape(case["prog"])


def run_one(case, agg):
    res, w = run_case(case, agg)
    if res is None:
        cm = case["comment"]
        nontriv = bool(cm["items"]) and case.pop("_scanned", True)
        agg.held(shape_of(case), nontriv, sample={"comment": render_comment(cm), "placement": case["placement"], "program": lang.program_text(case["prog"], "m.csv")})
        for k, v in cm["modes"].items():
            if v:
                agg.count(f"mode:{k}={v}")
    elif res == "undecided":
        agg.skipped("base program raises")
    else:
        agg.violation(res, case, w, shape_of(case))


def run_shard(spec, agg):
    from vfy import hooks

    hooks.install_line_hook()
    for i in range(spec["n"]):
        run_one(make_case(spec["seed"], spec["shard"], i), agg)


def replay(case, agg):
    from vfy import hooks

    hooks.install_line_hook()
    run_one(case, agg)


def finish(m, tier):
    c = m["counters"]
    return {"mode_coverage": {k[5:]: v for k, v in sorted(c.items()) if k.startswith("mode:")}}

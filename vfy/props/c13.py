"""C13 - stop, skip, advance and last control the run as documented.

Systematic enumeration: one conditional control function at every position among
1-4 side-effecting components (stack pushes before/after it), every firing line,
scan windows, files with and without interior/trailing blank records. Monitors:
LineEvent hook (variables after each line = which pushes happened), EvalEvent
hook (which top-level components were evaluated on which line) and the
reference evaluator; plus the temporal rules checked directly on the event trace.
"""
import itertools
import random

from vfy import lang

LEVEL = "exploration"
DECIDING = ["line_events", "eval_events"]
MIN_DECIDED_RATIO = 0.5
WHAT = ("match", "vars", "counters", "valid")
KNOWN_SWITCHES = ("F9", "F9b")
RULE = (
    "product of: control form {stop(c), c->stop(), skip(c), c->skip(), skip.once(c), c->skip.once(), c->advance(1..3), fail_and_stop(c), last()->push, bare last()} x "
    "position among 1-4 push components (also with a plain match component that fails on the firing lines) x firing line(s) x scan window {*,1*,2*,0-3,1-4,2-9,1+3-5} x file layout {plain, interior blank, "
    "trailing blank, two trailing blanks, blank before firing line}; a third of the programs carry unmatched-mode: keep; thorough adds two control functions per program and an "
    "onmatch-qualified component before the control function. Non-trivial: the control function fires on at least one scanned line; "
    "distinct = distinct (program skeleton, firing lines, window, layout)."
)
ASSUMPTIONS = [
    "reference semantics from docs/functions/stop.md, advance.md, last.md and the property statement",
    "A1: a scan window whose final line is a blank record - last() firing or not are both admissible; such cases are not decided",
    "known finding F9 (onmatch look-ahead runs components placed after a firing skip/stop) is attributed only by exact emulation",
]

COND = ("eq", ("hdr", "1"), ("str", "F"))


def push(i):
    return ("fn", "push", [("str", f"s{i}"), ("hdr", "0")], [])


CONTROLS = {
    "stop(c)": lambda n: ("fn", "stop", [COND], []),
    "c->stop()": lambda n: ("when", COND, ("fn", "stop", [], [])),
    "skip(c)": lambda n: ("fn", "skip", [COND], []),
    "c->skip()": lambda n: ("when", COND, ("fn", "skip", [], [])),
    "skip.once(c)": lambda n: ("fn", "skip", [COND], ["once"]),  # fires on the first line where c holds, never again
    "c->skip.once()": lambda n: ("when", COND, ("fn", "skip", [], ["once"])),
    "c->advance(n)": lambda n: ("when", COND, ("fn", "advance", [("int", n)], [])),
    "fail_and_stop(c)": lambda n: ("fn", "fail_and_stop", [COND], []),
    "last()->push": lambda n: ("when", ("fn", "last", [], []), ("fn", "push", [("str", "L"), ("hdr", "0")], [])),
    "last()": lambda n: ("fn", "last", [], []),
}

WINDOWS = ["*", "1*", "2*", "0-3", "1-4", "2-9", "1+3-5", "4+1+3", "5+1-2"]  # (the last two: a list written out of order)
LAYOUTS = ["plain", "interior-blank", "trailing-blank", "two-trailing-blanks", "blank-before-fire"]


NM = ("eq", ("hdr", "2"), ("str", "m"))  # a plain match component that does not hold on the firing lines


def make_rows(layout, fire, n=6):
    rows = []
    for i in range(n):
        rows.append([f"r{i}", "F" if i in fire else "n", "x" if i in fire else "m"])
    if layout == "interior-blank":
        rows.insert(2, [])
    elif layout == "trailing-blank":
        rows.append([])
    elif layout == "two-trailing-blanks":
        rows.append([])
        rows.append([])
    elif layout == "blank-before-fire" and fire:
        rows.insert(min(fire), [])
    return rows


def cases(tier, seed):
    """yields (prog, rows, meta)"""
    for kind, mk in CONTROLS.items():
        for K in (1, 2, 3, 4) if tier == "thorough" else (1, 2, 3):
            positions = range(K + 1)
            if kind.startswith("last()"):
                positions = [K]  # a last() component comes last
            for p in positions:
                for n_adv in ((1, 2, 3) if kind == "c->advance(n)" else (0,)):
                    comps = [push(i) for i in range(K)]
                    comps.insert(p, mk(n_adv))
                    fires = [[i] for i in range(6)] + [[1, 3], [2, 3]]
                    if kind.startswith("last()"):
                        fires = [[]]
                    for fire in fires:
                        for w in WINDOWS:
                            for lay in LAYOUTS:
                                if lay == "blank-before-fire" and not fire:
                                    continue
                                rows = make_rows(lay, fire)
                                yield {"scan": w, "comps": comps, "mode": "AND"}, rows, {"kind": kind, "K": K, "p": p, "fire": fire, "window": w, "layout": lay, "n": n_adv}
                                if kind in ("skip(c)", "c->skip()", "stop(c)", "c->stop()", "c->advance(n)") and lay in ("plain", "interior-blank") and n_adv in (0, 2):
                                    # the same with an ordinary match component, placed first, that fails on the firing line
                                    yield {"scan": w, "comps": [NM] + comps, "mode": "AND"}, rows, {"kind": kind + "+unmatched-sibling", "K": K, "p": p, "fire": fire, "window": w, "layout": lay, "n": n_adv}
    # two last() components in one csvpath: both fire, also when the file ends in a blank record
    for K in (1, 2):
        for w in WINDOWS:
            for lay in LAYOUTS:
                if lay == "blank-before-fire":
                    continue
                comps = [push(i) for i in range(K)] + [
                    ("when", ("fn", "last", [], []), ("fn", "push", [("str", "L"), ("fn", "line_number", [], [])], [])),
                    ("when", ("fn", "last", [], []), ("fn", "push", [("str", "L2"), ("fn", "line_number", [], [])], [])),
                ]
                yield {"scan": w, "comps": comps, "mode": "AND"}, make_rows(lay, []), {"kind": "last()->push x2", "K": K, "p": K, "fire": [], "window": w, "layout": lay, "n": 0}
    # random second-order cases: two controls, onmatch before the control
    r = random.Random(f"{seed}:C13:extra")
    n_extra = 3000 if tier == "quick" else 60000
    kinds = list(CONTROLS)
    for _ in range(n_extra):
        K = r.randint(1, 4)
        comps = [push(i) for i in range(K)]
        nctl = 2 if r.random() < 0.5 else 1
        ks = []
        for j in range(nctl):
            kind = r.choice([k for k in kinds if not k.startswith("last()")])
            ks.append(kind)
            comps.insert(r.randint(0, len(comps)), CONTROLS[kind](r.randint(1, 3)))
        x = r.random()
        if x < 0.45:
            i = r.randint(0, len(comps) - 1)
            om = ("fn", "push", [("str", "om"), ("hdr", "0")], ["onmatch"])
            comps.insert(i, om)
            ks.append("onmatch@%d" % i)
            if r.random() < 0.3:
                comps.insert(r.randint(0, len(comps)), ("fn", "push", [("str", "om"), ("str", "x")], ["onmatch"]))
        if r.random() < 0.3 and "c->advance(n)" not in ks and not any(k.startswith("onmatch") for k in ks):
            comps.append(CONTROLS["last()->push"](0))
            ks.append("last")
        if r.random() < 0.3 and not any(k.startswith("onmatch") for k in ks):
            # (with an onmatch component the known look-ahead findings F9/F9b already decide what runs on such a line)
            comps.insert(r.randint(0, len(comps)), NM)
            ks.append("unmatched-sibling")
        fire = sorted(r.sample(range(6), r.choice([1, 1, 2, 3])))
        w = r.choice(WINDOWS)
        lay = r.choice(LAYOUTS)
        yield {"scan": w, "comps": comps, "mode": "AND"}, make_rows(lay, fire), {"kind": "+".join(ks), "K": K, "p": -1, "fire": fire, "window": w, "layout": lay, "n": 0}


def plan(tier, seed):
    n = 16
    return [{"shard": i, "nshards": n, "timeout": 3600} for i in range(n)]


def temporal_rules(real, mtrace, m):
    """'X never happens after Y' checked on the real event trace, independent of variable comparison"""
    rec = real["rec"]
    evals = {}
    for pln, idx in rec.evals:
        evals.setdefault(pln, []).append(idx)
    if "F9" in m.emulate or any(m.has_onmatch(c) for c in m.comps):
        # an onmatch component's look-ahead legitimately evaluates the other components out of order
        return None
    for mt in mtrace:
        if not mt["considered"]:
            continue
        got = evals.get(mt["pln"], [])
        want = mt["ran"]
        # every component the documented semantics run must have been evaluated, and nothing after a firing control
        if mt.get("fired"):
            extra = [i for i in got if i not in want]
            if extra:
                return {"kind": f"component-evaluated-after-{mt['fired']}", "pln": mt["pln"], "evaluated": got, "documented": want}
        if sorted(set(got)) != sorted(set(want)):
            return {"kind": "components-evaluated", "pln": mt["pln"], "evaluated": got, "documented": want}
    # advance: skipped lines show no evaluation at all
    return None


def run_one(prog, rows, meta, agg):
    from vfy import diffrun

    prog = lang.tolist(prog)
    status, info = diffrun.decide(prog, rows, agg, WHAT, KNOWN_SWITCHES, extra_check=temporal_rules)
    shape = lang.prog_shape(prog) + f"|{meta['fire']}|{meta['window']}|{meta['layout']}|{meta.get('comment', '')}"
    case = {"prog": prog, "rows": rows, "meta": meta}
    if status == "held":
        # non-trivial: the control function actually fired / advanced over a scanned line (last(): some line was scanned)
        fired = bool(info["fired_lines"]) or info["advanced_over"] > 0 or (meta["kind"].startswith("last()") and info["lines_scanned"] > 0)
        agg.held(shape, fired, sample={"program": info["program"], "rows": rows, "meta": meta, "control_fired_on_lines": info["fired_lines"]} if fired else None)
        if fired:
            agg.count("cases_where_control_fired")
        agg.count("kind:" + meta["kind"].split("+")[0])
    elif status == "undecided":
        agg.skipped(info)
    elif status == "known":
        agg.known_finding(info[0], case, info[1], shape)
    else:
        agg.violation(info[0], case, info[1], shape)


def run_shard(spec, agg):
    from vfy import hooks

    hooks.install_line_hook()
    hooks.install_vote_hook()
    hooks.install_valid_hook()
    for i, (prog, rows, meta) in enumerate(cases(spec["tier"], spec["seed"])):
        if i % spec["nshards"] != spec["shard"]:
            continue
        if (i // spec["nshards"]) % 3 == 0:
            # a third of the programs keep their unmatched lines: an option that changes what the run loop does with a
            # line after the match part has decided - never what the controls mean
            prog = dict(prog, comment="unmatched-mode: keep ")
            meta = dict(meta, comment=prog["comment"].strip())
        run_one(prog, rows, meta, agg)


def replay(case, agg):
    from vfy import hooks

    hooks.install_line_hook()
    hooks.install_vote_hook()
    hooks.install_valid_hook()
    run_one(case["prog"], case["rows"], case["meta"], agg)


def finish(m, tier):
    c = m["counters"]
    return {"control_form_coverage": {k[5:]: v for k, v in sorted(c.items()) if k.startswith("kind:")}}

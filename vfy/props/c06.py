"""C06 - lines are delivered as they are in the file; headers are the first data line.

Oracle: Python's csv module reading the same bytes with the same dialect.
Monitors: returned lines of `[*][yes()]`, CsvPath.headers, and the LineEvent hook
capturing `@v = #name` / `@w = #index` on every line.
"""
import os
import random

LEVEL = "exploration"
DECIDING = ["line_events"]
MIN_DECIDED_RATIO = 0.9
RULE = (
    "random CSV files from arbitrary cell text (unicode, embedded delimiters, both quote chars, LF in cells, ragged rows, "
    "blank records anywhere, 0-12 records of 1-6 cells) x delimiter {, ; | TAB} x quotechar {\" '} written by csv.writer; "
    "a fifth of the files are read through CsvPaths().csvpath() (cold and warm cache), 6% are also registered as a named file (content A, then B, then A again) and collected by a named-paths run; half of the files get a nameable header row and are also run with a program capturing every column by name and by index. "
    "Non-trivial: the file has at least one non-blank record; distinct = distinct (file bytes, dialect, program) triples."
)
ASSUMPTIONS = [
    "Python's csv.reader on the same bytes with the same delimiter/quotechar is the reference reading",
    "header cleaning rule (strip; remove ; , | TAB `) transcribed from LineCounter.clean_headers - the docs do not list the characters",
]


def clean(h):
    h = h.strip()
    for ch in [";", ",", "|", "\t", "`"]:
        h = h.replace(ch, "")
    return h


def plan(tier, seed):
    n = 16
    per = 1500 if tier == "quick" else 30000
    return [{"shard": i, "n": per, "timeout": 3000} for i in range(n)]


def make_case(seed, shard, i):
    from vfy.gen import csvgen

    r = random.Random(f"{seed}:C06:{shard}:{i}")
    named = r.random() < 0.5
    recs, dialect = csvgen.arbitrary(r, named_headers=named)
    case = {"records": recs, "dialect": dialect, "named": named, "via_csvpaths": r.random() < 0.2, "keep_blanks": r.random() < 0.2}
    if r.random() < 0.06:
        # delivered through a named file: registered, replaced by other content, registered again
        other, _ = csvgen.arbitrary(r, named_headers=False)
        case["named_file_other"] = other
    return case


def run_case(case, agg, tag):
    from vfy import env, hooks
    from vfy.gen import csvgen

    recs, dialect, named = case["records"], case["dialect"], case["named"]
    data = csvgen.to_bytes(recs, dialect)
    fname = f"d{tag}.csv"
    with open(fname, "wb") as f:
        f.write(data)
    try:
        oracle = csvgen.parse_bytes(data, dialect)
        nonblank = [rec for rec in oracle if len(rec) > 0]
        kw = {"delimiter": dialect["delimiter"], "quotechar": dialect["quotechar"]}
        # ---- A: every record comes back as it is (a fifth of the files go through CsvPaths().csvpath(),
        #         i.e. through the line-count/header cache, twice: cold then warm)
        via_csvpaths = case.get("via_csvpaths", False)

        shared = {}

        def make():
            if not via_csvpaths:
                return env.new_csvpath(["raise", "collect"], **kw)
            from csvpath import CsvPaths
            from csvpath.util.error import ErrorCommsManager

            if "cs" not in shared:
                shared["cs"] = CsvPaths(print_default=False, **kw)
            cs = shared["cs"]
            cpath = cs.csvpath()
            cpath.config.csvpath_errors_policy = ["raise", "collect"]
            cpath._ecoms = ErrorCommsManager(csvpath=cpath)
            return cpath, None

        if via_csvpaths:
            warm, _ = make()
            try:
                # an earlier job of the same instance that extends its own lines must not change what later jobs see
                warm.collect(f'${fname}[*][append("zz_extra", line_number())]')
            except Exception:  # noqa
                pass
        c, cap = make()
        with hooks.recording(agg) as rec:
            try:
                lines = c.collect(f"${fname}[*][yes()]")
            except Exception as e:  # noqa
                cls = "exception-empty-file" if len(oracle) == 0 else "exception"
                return cls, {"program": "[*][yes()]", "exc": repr(e)[:300], "records": recs[:6], "dialect": dialect}
        if lines != nonblank:
            for i, (a, b) in enumerate(zip(lines + [None] * 20, nonblank + [None] * 20)):
                if a != b:
                    break
            return "returned-lines", {"first_diff_at": i, "got": a, "want": b, "n_got": len(lines), "n_want": len(nonblank), "dialect": dialect}
        want_h = [clean(h) for h in nonblank[0]] if nonblank else []
        if list(c.headers) != want_h:
            return "headers", {"got": c.headers, "want": want_h, "dialect": dialect}
        physical = [ev["pln"] for ev in rec.lines]
        if physical != list(range(len(oracle))):
            return "line-numbers", {"got": physical, "want_n": len(oracle)}
        if not named or not nonblank:
            return None
        # ---- B: #name and #index address the same cell; a short row reads as absent
        names = want_h
        if len(set(names)) != len(names):
            return None
        comps = []
        for i, n in enumerate(names):
            ref = f'#"{n}"' if (" " in n or "." in n) else f"#{n}"  # (a name with a space or a dot has to be quoted)
            comps.append(f"@v{i} = {ref} @w{i} = #{i}")
        # with skip_blank_lines=False blank records reach the match part too: every header reads as absent there
        keep_blanks = case.get("keep_blanks", False) and not via_csvpaths
        prog = f"${fname}[*][{' '.join(comps)}" + (" #0" if keep_blanks else "") + "]"
        if keep_blanks:
            agg.count("runs_with_skip_blank_lines_false")
            c2, _ = env.new_csvpath(["raise", "collect"], skip_blank_lines=False, **kw)
        else:
            c2, _ = make()
        with hooks.recording(agg) as rec2:
            try:
                c2.collect(prog)
            except Exception as e:  # noqa
                return "exception-header-read", {"program": prog, "exc": repr(e)[:300], "dialect": dialect}
        evs = [ev for ev in rec2.lines if ev["considered"]]
        offered = oracle if keep_blanks else nonblank
        if keep_blanks and oracle and len(oracle[-1]) == 0:
            offered = oracle[:-1]  # a blank final record is not scanned: it only gives last() its chance to run
        if len(evs) != len(offered):
            return "considered-count", {"got": len(evs), "want": len(offered), "skip_blank_lines": not keep_blanks}
        # variables persist across lines: an absent cell must overwrite with None
        for ev, row in zip(evs, offered):
            for i in range(len(names)):
                want = row[i].strip() if i < len(row) else None
                v = ev["vars"].get(f"v{i}")
                w = ev["vars"].get(f"w{i}")
                if v != want or w != want:
                    short = i >= len(row)
                    cls = "header-by-name-short-row" if (short and w == want) else ("header-by-index-short-row" if short else "header-value")
                    return cls, {"line": ev["pln"], "header": names[i], "index": i, "by_name": v, "by_index": w, "want": want, "row": row, "dialect": dialect}
        return None
    finally:
        try:
            os.unlink(fname)
        except OSError:
            pass


def run_named_file(case, agg):
    """the same bytes reached through the named-files area and a named-paths run: register A, B, then A again under
    one name and source file name; every run must deliver the records of the content registered last"""
    from vfy import cps, env, hooks
    from vfy.gen import csvgen

    dialect = case["dialect"]
    kw = {"delimiter": dialect["delimiter"], "quotechar": dialect["quotechar"]}
    A = csvgen.to_bytes(case["records"], dialect)
    B = csvgen.to_bytes(case["named_file_other"], dialect)
    cps.reset_sandbox()
    cs = env.new_csvpaths(**kw)
    cs.paths_manager.add_named_paths(name="all", paths=["~ id: m ~ $[*][yes()]"])
    methods = ["collect_paths", "collect_by_line", "next_paths", "next_by_line"]
    k0 = len(A) % 4
    for si, (step, data) in enumerate((("A", A), ("B", B), ("A again", A))):
        method = methods[(k0 + si) % 4]  # serial and breadth-first runs open the file through different readers
        oracle = [rec for rec in csvgen.parse_bytes(data, dialect) if len(rec) > 0]
        if not oracle:
            return None
        cps.add_file(cs, "nf", data=data, srcname="nf.csv")
        inst = env.new_csvpaths(**kw)
        with hooks.recording(agg) as rec:
            lines, exc = cps.run_method(inst, method, "all", "nf")
        agg.count("named_file_runs")
        w = {"step": step, "method": method, "dialect": dialect, "registered_records": oracle[:4]}
        if exc is not None:
            w["exc"] = f"{type(exc).__name__}: {str(exc)[:200]}"
            return "named-file-run-raises", w
        res = inst.results_manager.get_named_results("all")[0]
        got = [[str(x) for x in ev["line"]] for ev in rec.lines if ev["ret"]]
        if got != oracle:
            w["delivered"] = got[:4]
            return "named-file-delivers-other-records", w
        want_h = [clean(h) for h in oracle[0]]
        if list(res.csvpath.headers) != want_h:
            w["headers"] = list(res.csvpath.headers)
            w["want_headers"] = want_h
            return "named-file-headers", w
    return None


def shape_of(case):
    recs = case["records"]
    kinds = []
    for rec in recs:
        if not rec:
            kinds.append("B")
        else:
            k = ""
            for cell in rec:
                k += "e" if cell == "" else ("q" if any(ch in cell for ch in ',;|\t"\'\n') else ("u" if any(ord(ch) > 127 for ch in cell) else "a"))
            kinds.append(k)
    d = case["dialect"]
    return f"{d['delimiter']!r}{d['quotechar']}{len(d['lineterminator'])}|{case['named']}|{case.get('via_csvpaths')}|{case.get('named_file_other') is not None}|{case.get('keep_blanks')}|" + "/".join(kinds)


def run_shard(spec, agg):
    from vfy import hooks

    hooks.install_line_hook()
    for i in range(spec["n"]):
        case = make_case(spec["seed"], spec["shard"], i)
        res = run_case(case, agg, f"{spec['shard']}_{i}")
        if res is None and case.get("named_file_other") is not None:
            res = run_named_file(case, agg)
        nontriv = any(len(r) > 0 for r in case["records"])
        if res is None:
            agg.held(shape_of(case), nontriv, sample={"records": case["records"][:4], "dialect": case["dialect"], "named_headers": case["named"]})
        else:
            agg.violation(res[0], case, res[1], shape_of(case))


def replay(case, agg):
    from vfy import hooks

    hooks.install_line_hook()
    res = run_case(case, agg, "replay")
    if res is None and case.get("named_file_other") is not None:
        res = run_named_file(case, agg)
    if res is None:
        agg.held("replay", True)
    else:
        agg.violation(res[0], case, res[1])

"""C09 - the archived results of a run say what the run did.

After every real named-paths run (six methods; members with and without identity,
hostile cell text, unmatched-mode keep, named printers, runs ending by exhaustion,
stop or fail) the archive on disk is compared with the in-memory Results and with
what the LineEvent hook saw each member collect; fingerprints are recomputed from
the bytes on disk.
"""
import os
import random

from vfy import lang

LEVEL = "exploration"
DECIDING = ["line_events", "members_checked"]
MIN_DECIDED_RATIO = 0.8
FEATURES = ("assign", "agg", "control", "print", "fail", "onmatch")
RULE = (
    "random groups of 1-4 generated members (JSON-representable variables; ~half with an id, some with unmatched-mode keep, some printing to a "
    "named printer) x random files whose text cells contain quotes, delimiters, newlines and non-ASCII x the six run methods. Non-trivial: some "
    "member collects a line, writes a variable, prints or records an error; distinct = distinct (member skeletons, method, identity pattern)."
)
ASSUMPTIONS = ["policy {collect, print} (no raise) so every run returns", "in-memory Result objects + LineEvents are the reference for the files"]

HOSTILE = ['say "hi"', "a,b", "two\nlines", "it's", "é漢字", '"', ",", " lead", "trail ", "x\ty", "'q'", "semi;colon", "pipe|d"]


def plan(tier, seed):
    n = 16
    per = 100 if tier == "quick" else 1500
    return [{"shard": i, "n": per, "timeout": 7200} for i in range(n)]


def make_case(seed, shard, i):
    r = random.Random(f"{seed}:C09:{shard}:{i}")
    n = r.choice([1, 2, 2, 3, 4])
    members = []
    headerless = r.random() < 0.2
    for j in range(n):
        g = lang.Gen(r, FEATURES)
        prog = g.program(ncomp=r.randint(1, 4), scan=r.choice(lang.HEADERLESS_SCANS) if headerless else None)
        if headerless:
            prog["comps"] = [lang.index_headers(c) for c in prog["comps"]]
        prog = lang.tolist(prog)
        extra = lang.random_mode_comment(r, 0.3, allow=("return-mode", "validation-mode"))
        if r.random() < 0.35:
            extra += "unmatched-mode: keep "
        if r.random() < 0.4:
            prog["comps"].append(["fn", "print", [["str", r.choice(["to named $.csvpath.line_number", "n: $.headers.c", "plain text"])], ["str", r.choice(["audit", "report"])]], []])
        ident = f"m{j}" if r.random() < 0.55 else None
        members.append({"prog": prog, "ident": ident, "extra": extra})
    rows = lang.data_rows(r, header_prob=0.0 if headerless else 0.85)
    if r.random() < 0.05:
        # a big file: the archived data.csv / unmatched.csv / printouts.txt run to tens of KiB (sizes where
        # chunked reading and writing, spooling and hashing of the archive files change path)
        while len(rows) < 300:
            rows += lang.data_rows(r, header_prob=0.0, nmax=60)
    for row in rows:
        for k in (2, 3):
            if len(row) > k and r.random() < 0.35:
                row[k] = r.choice(HOSTILE)
    if not any(len(x) for x in rows):
        rows.append(["1", "2", "x", "y"])
    from vfy import cps

    methods = cps.METHODS + ["next_paths:collect", "next_by_line:collect"]
    x = r.random()
    if x < 0.06:
        # a parked group: every member is switched off (the run still has to be archived as a complete run)
        for m_ in members:
            m_["extra"] += "run-mode: no-run "
    elif x < 0.14:
        r.choice(members)["extra"] += "run-mode: no-run "
    cps_policy = None
    if r.random() < 0.1:
        # a member that fails outside match evaluation (unknown function) in a run whose CsvPaths-level policy does not
        # raise: the run goes on, and the archive must still say what happened to every member
        members.insert(r.randint(0, len(members)), {"prog": {"scan": "*", "comps": [["fn", "nosuchfunction", [], []]], "mode": "AND"}, "ident": f"broken{i}" if r.random() < 0.6 else None, "extra": ""})
        cps_policy = ["collect", "print"]
    if r.random() < 0.12:
        # a member that fails the whole run with fail_all() on some line (or at the end): whatever that does to its
        # siblings, earlier or later in the group, the archive has to say what the run left in memory
        cond = r.choice([["eq", ["fn", "line_number", [], []], ["int", r.choice([0, 1, 2])]], ["fn", "last", [], []], ["fn", "yes", [], []]])
        judge = {"scan": "*", "comps": [["when", cond, ["fn", "fail_all", [], []]]], "mode": "AND"}
        members.insert(r.randint(0, len(members)), {"prog": judge, "ident": f"judge{i}" if r.random() < 0.6 else None, "extra": ""})
    return {"members": members, "rows": rows, "method": methods[i % len(methods)], "csvpaths_policy": cps_policy}


def run_case(case, agg):
    from vfy import archive, cps, env, hooks

    members, rows, method = case["members"], case["rows"], case["method"]
    cps.reset_sandbox()
    env.write_config(".", csvpath_policy=["collect", "print"], csvpaths_policy=case.get("csvpaths_policy"))
    cs = env.new_csvpaths()
    cps.add_file(cs, "data", rows)
    texts = [cps.member_text(m["prog"], ident=m["ident"], extra_comment=m["extra"]) for m in members]
    cs.paths_manager.add_named_paths(name="grp", paths=texts)
    kw = {}
    collecting = method in ("collect_paths", "collect_by_line")
    if method.endswith(":collect"):
        method = method.split(":")[0]
        kw = {"collect": True}
        collecting = True
    with hooks.recording(agg) as rec:
        lines, exc = cps.run_method(cs, method, "grp", "data", **kw)
    w = {"members": texts, "rows": rows, "method": method}
    if exc is not None:
        w["exc"] = f"{type(exc).__name__}: {str(exc)[:300]}"
        return "exception", w
    results = cs.results_manager.get_named_results("grp")
    if len(results) != len(members):
        w["n_results"] = len(results)
        return "result-count", w
    rd = cps.run_dirs("grp")
    if len(rd) != 1:
        w["run_dirs"] = rd
        return "run-dirs", w
    names = [m["ident"] if m["ident"] else str(j) for j, m in enumerate(members)]
    by_id = {}
    for ev in rec.lines:
        by_id.setdefault(ev["id"], []).append(ev)
    collected = []
    for r_ in results:
        evs = by_id.get(id(r_.csvpath), [])
        if collecting:
            collected.append([ev["line"] for ev in evs if ev["ret"]])
        else:
            collected.append(None)
    pr = archive.check_run("grp", rd[0], results, collected, method, names)
    if pr:
        w.update(pr[1])
        return pr[0], w
    # completed, where it is clear-cut: an unbounded scan completes iff the member processed the file's final record
    for r_, m in zip(results, members):
        scan = m["prog"]["scan"]
        if scan.endswith("*"):
            evs = by_id.get(id(r_.csvpath), [])
            reached = bool(evs) and evs[-1]["pln"] == len(rows) - 1
            if r_.csvpath.completed != reached:
                w["member"] = m["ident"]
                w["completed"] = r_.csvpath.completed
                w["processed_final_record"] = reached
                return "completed-flag", w
    agg.count("members_checked", len(members))
    case["_nontrivial"] = any((c_ and len(c_) > 0) for c_ in collected) or any(r_.csvpath.variables or r_.errors or r_.has_printouts() for r_ in results)
    return None, None


def run_one(case, agg):
    res, w = run_case(case, agg)
    shape = case["method"] + "|" + "||".join(lang.prog_shape(m["prog"]) + ("#id" if m["ident"] else "#idx") + m["extra"] for m in case["members"])
    if res is None:
        agg.held(shape, case.pop("_nontrivial", True), sample={"method": case["method"], "members": [lang.program_text(m["prog"], "data") for m in case["members"]]})
        agg.count("method:" + case["method"])
    else:
        agg.violation(res, case, w, shape)


def run_shard(spec, agg):
    from vfy import env, hooks

    hooks.install_line_hook()
    try:
        for i in range(spec["n"]):
            run_one(make_case(spec["seed"], spec["shard"], i), agg)
    finally:
        env.write_config(".")


def replay(case, agg):
    from vfy import hooks

    hooks.install_line_hook()
    run_one(case, agg)

"""C12 - named-paths groups round-trip and select by identity.

History + executable model (name -> list of csvpath texts) replayed against the
real PathsManager: after every add / identical re-add / replace / remove /
new-instance operation the stored group, the identity selections ('name#id',
'$name.csvpaths.id', ':from', ':to') and the manifest (one entry, fingerprinting
the stored group file, per change of content) are compared with the model. The
identity of every generated member is known to the harness from the metadata it
generated, not from parsing.
"""
import hashlib
import json
import os
import random

from vfy import lang

LEVEL = "exploration"
DECIDING = ["operations", "selections_checked"]
MIN_DECIDED_RATIO = 0.9
RULE = (
    "lists of 1-5 generated csvpaths (outer comment before / after / both with id|Id|ID|name|Name|NAME in any combination and other "
    "fields, inner ~comments~, newlines and tabs, '~' '[' ']' '$' '#' inside strings, regex terms, quoted headers, non-ASCII) x histories of "
    "<= 5 operations {add list k to group g, identical re-add, replace, replace by a list of exactly the same length that differs in one digit, remove, new instance} on 2 group names; the storage separator text "
    "'---- CSVPATH ----' is excluded from literals (docs/paths.md). Non-trivial: at least one group with >= 2 members; distinct = distinct "
    "(history, member shapes)."
)
ASSUMPTIONS = ["identity precedence id > Id > ID > name > Name > NAME (docs)", "texts are compared up to surrounding whitespace"]

IDKEYS = ["id", "Id", "ID", "name", "Name", "NAME"]
STRS = ["abc", "a ~ b", "x]y", "[z", "$not.a.ref", "#nohdr", "two\\nwords", "été 漢", "semi;colon", "pipe|bar", "q'uote", "a -> b", "k: v"]


def gen_member(r, used_ids):
    g = lang.Gen(r, ("assign", "agg", "print"))
    prog = g.program(ncomp=r.randint(1, 4))
    comps = [lang.txt(c) for c in prog["comps"]]
    # hostile literals
    if r.random() < 0.6:
        comps.append(f'#c == "{r.choice(STRS)}"')
    if r.random() < 0.3:
        comps.append(f'regex(#c, /{r.choice(["a.b", "^x+$", "[0-9]+", "q~r"])}/)')
    if r.random() < 0.3:
        comps.append('#"last name" == "x"')
    if r.random() < 0.4:
        comps.insert(r.randint(0, len(comps)), r.choice(["~ inner note ~", "~ id: not-an-identity ~", "~~"]))
    sep = r.choice([" ", "\n", "\n    ", " \t "])
    body = f"$[{prog['scan']}][{sep.join(comps)}]"
    ident = None
    meta = {}
    if r.random() < 0.75:
        keys = r.sample(IDKEYS, r.choice([1, 1, 2, 3]))
        for k in keys:
            while True:
                v = r.choice(["alpha", "beta", "check", "p", "orders-1", "x_2", "M", "m", "load.v", "orders.check"]) + str(r.randint(0, 99))
                if r.random() < 0.3:
                    # plain words (identities that end in a letter, e.g. in one of the letters of ':to' / ':from')
                    v = r.choice(["first", "next", "last", "header", "footer", "root", "count", "customer", "from", "to", "auto", "form"])
                if v not in used_ids:
                    break
            used_ids.add(v)
            meta[k] = v
        for k in IDKEYS:
            if k in meta:
                ident = meta[k]
                break
    fields = [f"{k}: {v}" for k, v in meta.items()]
    if r.random() < 0.5:
        fields.append(r.choice(["description: checks things", "owner: ops team", "validation-mode: print", "note: été"]))
    r.shuffle(fields)
    placement = r.choice(["before", "after", "both"]) if fields else "none"
    if placement == "before":
        text = "~ " + " ".join(fields) + " ~\n" + body
    elif placement == "after":
        text = body + "\n~ " + " ".join(fields) + " ~"
    elif placement == "both":
        h = max(1, len(fields) // 2)
        text = "~ " + " ".join(fields[:h]) + " ~ " + body + (" ~ " + " ".join(fields[h:]) + " ~" if fields[h:] else "")
    else:
        text = body
    if r.random() < 0.3:
        text = r.choice(["\n", "  ", "\n\n"]) + text + r.choice(["\n", " ", ""])
    return {"text": text, "identity": ident or ""}


def gen_lists(r):
    used = set()
    lists = []
    for _ in range(3):
        lists.append([gen_member(r, used) for _ in range(r.randint(1, 5))])
    return lists


def gen_history(r):
    h = []
    exists = set()
    for _ in range(r.randint(1, 5)):
        x = r.random()
        g = r.randrange(2)
        if x < 0.6 or not h:
            h.append(["add", g, r.randrange(3)])
            exists.add(g)
        elif x < 0.75 and exists:
            last = [op for op in h if op[0] == "add" and op[1] in exists]
            op = last[-1]
            h.append(["add", op[1], op[2]])  # identical re-add
        elif x < 0.88 and exists:
            g = r.choice(sorted(exists))
            h.append(["remove", g])
            exists.discard(g)
        else:
            h.append(["new"])
    return h


def plan(tier, seed):
    n = 16
    per = 100 if tier == "quick" else 2000
    return [{"shard": i, "n": per, "timeout": 7200} for i in range(n)]


GN = ["alpha_group", "beta"]


def check_group(cs, gname, members, manifest_changes, agg, w):
    pm = cs.paths_manager
    want = [m["text"].strip() for m in members]
    try:
        got = pm.get_named_paths(gname)
    except Exception as e:  # noqa
        w["exc"] = f"{type(e).__name__}: {str(e)[:200]}"
        return "get_named_paths-raises"
    if got is None or [g.strip() for g in got] != want:
        w["got"] = got
        w["want"] = want
        return "round-trip"
    ids = [m["identity"] for m in members]
    for k, m in enumerate(members):
        ident = m["identity"]
        if not ident:
            continue
        # (an identity with a dot in it can only be written in the '#' form: '.' separates the parts of a '$' reference)
        dotted = "." in ident
        for ref in (f"{gname}#{ident}",) if dotted else (f"{gname}#{ident}", f"${gname}.csvpaths.{ident}"):
            agg.count("selections_checked")
            try:
                one = pm.get_named_paths(ref)
            except Exception as e:  # noqa
                w["reference"] = ref
                w["exc"] = f"{type(e).__name__}: {str(e)[:200]}"
                return "select-by-identity-raises"
            if [x.strip() for x in one] != [want[k]]:
                w["reference"] = ref
                w["got"] = one
                w["want"] = [want[k]]
                return "select-by-identity"
        for ref, exp in ((f"${gname}.csvpaths.{ident}:from", want[k:]), (f"${gname}.csvpaths.{ident}:to", want[: k + 1]), (f"{gname}#{ident}:from", want[k:]), (f"{gname}#{ident}:to", want[: k + 1])):
            if dotted and ref.startswith("$"):
                continue
            agg.count("selections_checked")
            try:
                sel = pm.get_named_paths(ref)
            except Exception as e:  # noqa
                w["reference"] = ref
                w["exc"] = f"{type(e).__name__}: {str(e)[:200]}"
                return "from-to-raises"
            if [x.strip() for x in sel] != exp:
                w["reference"] = ref
                w["got"] = sel
                w["want"] = exp
                return "from-to"
    # an identity that is only a prefix of a real one must not select anything
    for ident in ids:
        if ident and len(ident) > 1:
            try:
                one = pm.get_named_paths(f"{gname}#{ident[:-1]}")
                if ident[:-1] not in ids and one and one[0] is not None:
                    w["reference"] = f"{gname}#{ident[:-1]}"
                    w["got"] = one
                    return "prefix-identity-selects"
            except Exception:  # noqa
                pass
    mp = os.path.join("inputs", "named_paths", gname, "manifest.json")
    with open(mp) as f:
        mj = json.load(f)
    if not mj:
        return "manifest-empty"
    if len(mj) != manifest_changes:
        w["manifest_entries"] = len(mj)
        w["content_changes"] = manifest_changes
        return "manifest-length"
    with open(os.path.join("inputs", "named_paths", gname, "group.csvpaths"), "rb") as f:
        fp = hashlib.sha256(f.read()).hexdigest()
    if mj[-1]["fingerprint"] != fp:
        w["manifest_fingerprint"] = mj[-1]["fingerprint"]
        w["group_file_sha256"] = fp
        return "manifest-fingerprint"
    return None


def run_case(case, agg):
    from vfy import cps, env

    lists, h = case["lists"], case["history"]
    cps.reset_sandbox()
    cs = env.new_csvpaths()
    observer = env.new_csvpaths()  # long-lived, only ever reads
    model = {}  # gname index -> (list index)
    changes = {}  # gname index -> number of content changes since (re)creation
    w = {"history": h}
    for i, op in enumerate(h):
        w["step"] = i
        agg.count("operations")
        try:
            if op[0] == "add":
                _, g, k = op
                cs.paths_manager.add_named_paths(name=GN[g], paths=[m["text"] for m in lists[k]])
                if model.get(g) != k:
                    changes[g] = changes.get(g, 0) + 1
                model[g] = k
            elif op[0] == "remove":
                cs.paths_manager.remove_named_paths(GN[op[1]])
                model.pop(op[1], None)
                changes.pop(op[1], None)
            else:
                cs = env.new_csvpaths()
        except Exception as e:  # noqa
            w["exc"] = f"{type(e).__name__}: {str(e)[:300]}"
            return "operation-raises", w
        for inst, who in ((cs, "same instance"), (env.new_csvpaths(), "fresh instance"), (observer, "long-lived reader instance")):
            for g in (0, 1):
                if g in model:
                    pr = check_group(inst, GN[g], lists[model[g]], changes[g], agg, w)
                    if pr:
                        w["group"] = GN[g]
                        w["seen_by"] = who
                        w["members"] = [m["text"] for m in lists[model[g]]]
                        return pr, w
                elif inst.paths_manager.has_named_paths(GN[g]):
                    w["group"] = GN[g]
                    return "removed-group-still-there", w
    return None, None


def make_case(seed, shard, i):
    r = random.Random(f"{seed}:C12:{shard}:{i}")
    lists, history = gen_lists(r), gen_history(r)
    # a fourth list: list 0 with one digit of one member's csvpath changed - different content of exactly the same length
    # (an edited threshold, another line number); a third of the histories that store list 0 replace it with that list next
    r2 = random.Random(f"{seed}:C12same:{shard}:{i}")
    twin = [dict(m) for m in lists[0]]
    for m in r2.sample(twin, len(twin)):
        t = m["text"]
        lo, hi = t.find("$["), t.rfind("]")
        pos = [k for k in range(lo, hi) if t[k].isdigit()] if 0 <= lo < hi else []
        if pos:
            k = r2.choice(pos)
            m["text"] = t[:k] + r2.choice([d for d in "0123456789" if d != t[k]]) + t[k + 1 :]
            break
    lists.append(twin)
    if twin != lists[0] and r2.random() < 0.35:
        at = [k for k, op in enumerate(history) if op[0] == "add" and op[2] == 0]
        if at:
            k = r2.choice(at)
            history.insert(k + 1, ["add", history[k][1], 3])
    return {"lists": lists, "history": history}


def run_one(case, agg):
    res, w = run_case(case, agg)
    shape = json.dumps(case["history"]) + "|" + "/".join(str(len(l)) + "".join("i" if m["identity"] else "-" for m in l) for l in case["lists"])
    if res is None:
        agg.held(shape, any(len(l) >= 2 for l in case["lists"]), sample={"history": case["history"], "first_list": [m["text"] for m in case["lists"][0]][:2]})
    else:
        agg.violation(res, case, w, shape)


def run_shard(spec, agg):
    for i in range(spec["n"]):
        run_one(make_case(spec["seed"], spec["shard"], i), agg)


def replay(case, agg):
    run_one(case, agg)

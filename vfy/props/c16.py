"""C16 - print() emits its text verbatim with references replaced by current values.

The template is *built* from chunks (text / reference / escaped dot), so the
oracle never parses it: expected output = chunks with each reference replaced by
str() of the value found in a snapshot taken by a hook at the entry of
Print._decide_match (variables, current line, headers, metadata, run counters at
that instant). Monitors: that hook, two capture printers, the LineEvent hook.
"""
import copy
import random

LEVEL = "exploration"
DECIDING = ["print_snapshots", "line_events"]
MIN_DECIDED_RATIO = 0.9
RULE = (
    "random templates of 1-6 chunks: text (letters, digits, spaces, punctuation except $ and \", a backslash inside or at the very end in 15%), references "
    "($.variables.x[.key|.index|.length], $.headers.name|index|'quoted name', $.metadata.key, $.csvpath.field) and the '..' escape, in "
    "stratified arrangements (ref at start/end, ref-sep1-ref, ref-sepN-ref, ref-ref adjacent, ref + escaped dot, text only); each template is run "
    "as print / print.onmatch / print.once over a small file. A text chunk that directly follows a reference starts with a character that "
    "cannot continue a reference name (the documented grammar would otherwise read a longer name). Non-trivial: at least one reference; "
    "distinct = distinct (arrangement class, chunk kinds, qualifier) tuples."
)
ASSUMPTIONS = [
    "the value 'current at that point' is what the real run holds at the entry of Print._decide_match (snapshot hook), rendered with str()",
    "header references print the raw cell of the current line; rows are full width",
]

NAME_TERMINATORS = list(" !^:,;%()-+@#{}[]&<>/|?'")
TEXT_CHARS = list("abcXYZ0189 _=*") + list("!^:,;%()-+@#{}[]&<>/|?'.")
HEADERS = ["a", "b", "c name", "d", "2021"]  # (a header whose name reads as a number: a name all the same)
CSVPATH_FIELDS = ["line_number", "count_lines", "count_matches", "count_scans", "total_lines", "identity", "valid", "stopped"]


def gen_text(r, after_ref):
    n = r.choice([1, 1, 2, 3, 6])
    s = "".join(r.choice(TEXT_CHARS) for _ in range(n))
    s = s.replace('"', "").replace("$", "").replace("~", "").replace("]", ")")
    if after_ref:
        first = r.choice(NAME_TERMINATORS)
        s = first + s[1:]
    # '..' anywhere else in text is ordinary text for the docs but collides with the escape: keep single dots apart
    while ".." in s:
        s = s.replace("..", ".")
    if after_ref and s.startswith("."):
        s = "," + s[1:]
    return s or "x"


def gen_ref(r):
    k = r.choice(["var", "var", "vark", "vark", "stacki", "stacklen", "hname", "hname", "hidx", "hquoted", "meta", "cp"])
    if k == "var":
        return ["ref", "variables", r.choice(["x", "n"]), None]
    if k == "vark":
        return r.choice([["ref", "variables", "t", "k"], ["ref", "variables", "z", "k"], ["ref", "variables", "z", "b"], ["ref", "variables", "z", "e"], ["ref", "variables", "yr", "2023"]])
    if k == "stacki":
        return ["ref", "variables", "st", str(r.choice([0, 1]))]
    if k == "stacklen":
        return ["ref", "variables", "st", "length"]
    if k == "hname":
        return ["ref", "headers", r.choice(["a", "b", "d", "2021"]), None]
    if k == "hidx":
        return ["ref", "headers", str(r.choice([0, 1, 3])), None]
    if k == "hquoted":
        return ["ref", "headers", "'c name'", None]
    if k == "meta":
        return ["ref", "metadata", r.choice(["owner", "note"]), None]
    return ["ref", "csvpath", r.choice(CSVPATH_FIELDS), None]


ARRANGEMENTS = ["text-only", "ref-only", "ref-at-start", "ref-at-end", "ref-sep1-ref", "ref-sepN-ref", "ref-ref-adjacent", "ref-escaped-dot", "mixed"]


def gen_template(r, arr):
    if arr == "text-only":
        return [["text", gen_text(r, False)]]
    if arr == "ref-only":
        return [gen_ref(r)]
    if arr == "ref-at-start":
        return [gen_ref(r), ["text", gen_text(r, True)]]
    if arr == "ref-at-end":
        return [["text", gen_text(r, False)], gen_ref(r)]
    if arr == "ref-sep1-ref":
        return [gen_ref(r), ["text", r.choice(NAME_TERMINATORS)], gen_ref(r)]
    if arr == "ref-sepN-ref":
        return [gen_ref(r), ["text", gen_text(r, True) + r.choice("ab ,:")], gen_ref(r)]
    if arr == "ref-ref-adjacent":
        return [gen_ref(r), gen_ref(r)]
    if arr == "ref-escaped-dot":
        tail = [["text", gen_text(r, False)]] if r.random() < 0.5 else []
        return [["text", gen_text(r, False)], gen_ref(r), ["dot"]] + tail
    chunks = []
    prev_ref = False
    for _ in range(r.randint(2, 6)):
        if r.random() < 0.5 and not prev_ref:
            chunks.append(gen_ref(r))
            prev_ref = True
        elif prev_ref and r.random() < 0.15:
            chunks.append(["dot"])
            prev_ref = False
        else:
            chunks.append(["text", gen_text(r, prev_ref)])
            prev_ref = False
    return chunks


def render_template(chunks):
    out = ""
    for c in chunks:
        if c[0] == "text":
            out += c[1]
        elif c[0] == "dot":
            out += ".."
        else:
            out += f"$.{c[1]}.{c[2]}" + (f".{c[3]}" if c[3] is not None else "")
    return out


def expected_text(chunks, snap, emulate_adjacent=False):
    """emulate_adjacent: known finding F10b - the '$' of a reference that directly follows another reference is
    consumed as the first one's terminator, so the second reference is printed as its own source text"""
    out = ""
    prev_value_ref = False
    for c in chunks:
        if c[0] == "text":
            out += c[1]
            prev_value_ref = False
        elif c[0] == "dot":
            out += "."
            prev_value_ref = False
        elif emulate_adjacent and prev_value_ref:
            out += render_template([c])
            prev_value_ref = False
        else:
            out += str(ref_value(c, snap))
            prev_value_ref = True
    return out


def has_adjacent_refs(chunks):
    return any(a[0] == "ref" and b[0] == "ref" for a, b in zip(chunks, chunks[1:]))


def ref_value(c, snap):
    _, typ, name, key = c
    if typ == "variables":
        v = snap["variables"].get(name)
        if key is None:
            return v
        if isinstance(v, dict):
            return v.get(key)
        if isinstance(v, (list, tuple)):
            if key == "length":
                return len(v)
            return v[int(key)]
        raise KeyError("unspecified")
    if typ == "headers":
        nm = name.strip("'")
        if nm in snap["headers"]:
            return snap["line"][snap["headers"].index(nm)]  # a header of that name, whatever the name looks like
        if nm.isdigit():
            return snap["line"][int(nm)]
        return snap["line"][snap["headers"].index(nm)]
    if typ == "metadata":
        return snap["metadata"][name]
    return snap["csvpath"][name]


def plan(tier, seed):
    n = 16
    per = 1300 if tier == "quick" else 25000
    return [{"shard": i, "n": per, "timeout": 3600} for i in range(n)]


_SNAPS = {"on": None}


def install_print_hook():
    from csvpath.matching.functions.print.printf import Print

    if getattr(Print, "_vfy", False):
        return
    orig = Print._decide_match

    def _decide_match(self, skip=None):
        snaps = _SNAPS["on"]
        if snaps is not None:
            cp = self.matcher.csvpath
            lm = cp.line_monitor
            snaps.append(
                {
                    "pln": lm.physical_line_number,
                    "variables": copy.deepcopy(dict(cp.variables)),
                    "line": list(self.matcher.line),
                    "headers": list(cp.headers),
                    "metadata": dict(cp.metadata),
                    "csvpath": {
                        "line_number": lm.physical_line_number,
                        "count_lines": lm.physical_line_count,
                        "count_matches": cp.match_count,
                        "count_scans": cp.scan_count,
                        "total_lines": lm.data_end_line_count,
                        "identity": cp.identity,
                        "valid": cp.is_valid,
                        "stopped": cp.stopped,
                    },
                    "quals": list(self.qualifiers),
                    "target": (self._child_two().to_value(skip=skip) if len(self.children) and hasattr(self.children[0], "op") and self.children[0].op == "," else None),
                }
            )
        return orig(self, skip=skip)

    Print._decide_match = _decide_match
    Print._vfy = True


def make_case(seed, shard, i):
    r = random.Random(f"{seed}:C16:{shard}:{i}")
    arr = ARRANGEMENTS[i % len(ARRANGEMENTS)]
    chunks = gen_template(r, arr)
    qual = r.choice(["", "", "onmatch", "once", "onmatch.once"])
    rows = [HEADERS]
    for k in range(r.randint(2, 5)):
        rows.append([r.choice(["A1", "7", " p q", "x,y", "5.5"]), r.choice(["B1", "0", "b b", ""]), r.choice(["C", "c-c", "#z"]), r.choice(["D!", "dd", "9"]), r.choice(["10", "11", "y21"])])
    gate = r.choice(["", "", '#b == "B1"', 'not(#b == "B1")'])
    target = r.choice([None, None, "audit"])
    # an earlier print on the same line that also resolves $.csvpath references, then a component that changes run
    # state (fail()) before the print under test: "the value current at that point of that line"
    prelude = r.random() < 0.3
    no_default = r.random() < 0.25
    if r.random() < 0.15:
        # a backslash is punctuation like any other: inside a text chunk, or as the very last character of the string
        # (never straight after a reference name, where it is not a name terminator)
        texts = [c for c in chunks if c[0] == "text" and len(c[1]) >= 1]
        if texts:
            c = texts[-1] if r.random() < 0.6 else r.choice(texts)
            k = len(c[1]) if (c is chunks[-1] and r.random() < 0.7) else r.randint(1, len(c[1]))
            c[1] = c[1][:k] + "\\" + c[1][k:]
    return {"no_default": no_default, "chunks": chunks, "arr": arr, "qual": qual, "rows": rows, "gate": gate, "target": target, "prelude": prelude}


def run_case(case, agg):
    from vfy import env, hooks, lang

    chunks, qual, rows, gate = case["chunks"], case["qual"], case["rows"], case["gate"]
    tmpl = render_template(chunks)
    with open("pr.csv", "w", newline="") as f:
        f.write(lang.rows_to_text(rows))
    pq = "print" + ("." + qual if qual else "")
    target = case.get("target")
    tgt = f', "{target}"' if target else ""
    stream = target or "default"
    pre = 'print("at $.csvpath.line_number: $.csvpath.valid $.csvpath.count_matches", "pre") #2 == "C" -> fail() ' if case.get("prelude") else ""
    pm = "print-mode: no-default " if case.get("no_default") else ""  # (only the standard-out printer is switched off)
    prog = f'~ owner: team-a note: v1 id: pr1 {pm}~ $pr.csv[1*][@x = #a @n = count_lines() @t.k = #d @z.k = mod(count_lines(), 2) @z.b = equals(#a, "A1") @z.e = #b @yr.2023 = #d push("st", #b) push("st", #a) {pre}{pq}("{tmpl}"{tgt}) {gate}]'
    c, cap = env.new_csvpath(["collect", "print"])
    cap2 = env.CapturePrinter()
    c.add_printer(cap2)
    snaps = []
    _SNAPS["on"] = snaps
    try:
        with hooks.recording(agg) as rec:
            try:
                c.collect(prog)
            except Exception as e:  # noqa
                return "exception", {"program": prog, "exc": f"{type(e).__name__}: {str(e)[:300]}"}
    finally:
        _SNAPS["on"] = None
    snaps = [s_ for s_ in snaps if s_.get("target") != "pre"]
    agg.count("print_snapshots", len(snaps))
    w = {"program": prog, "template": tmpl, "chunks": chunks, "arrangement": case["arr"]}
    if c.errors:
        w["errors"] = [str(e.error)[:200] for e in c.errors[:2]]
        return "error", w
    # executions that should produce an entry
    execs = snaps
    if "once" in qual:
        execs = snaps[:1]
    try:
        want = [expected_text(chunks, s) for s in execs]
    except (KeyError, IndexError, ValueError):
        return "undecided", None
    got = [s for (n_, s) in cap.named if n_ == stream]
    if [x for x in cap.named if x[0] not in (stream, "pre")]:
        w["other_streams"] = [x for x in cap.named if x[0] not in (stream, "pre")][:3]
        return "printed-to-wrong-stream", w
    if got != [s for (n_, s) in cap2.named if n_ == stream]:
        w["printer1"] = got[:3]
        w["printer2"] = [s for (n_, s) in cap2.named][:3]
        return "printers-disagree", w
    if len(got) != len(want):
        w["got"] = got[:4]
        w["want"] = want[:4]
        return "entry-count" + ("-once" if "once" in qual else ""), w
    for g, e in zip(got, want):
        if g != e:
            w["got"] = g
            w["want"] = e
            if has_adjacent_refs(chunks) and got == [expected_text(chunks, s, emulate_adjacent=True) for s in execs]:
                return "KNOWN:F10b", w
            return "text:" + case["arr"], w
    if "onmatch" in qual:
        matched = {ev["pln"] for ev in rec.lines if ev["ret"]}
        printed_on = {s["pln"] for s in execs}
        if not printed_on <= matched:
            w["printed_on"] = sorted(printed_on)
            w["matched"] = sorted(matched)
            return "onmatch-printed-on-unmatched-line", w
        if "once" not in qual and printed_on != matched:
            w["printed_on"] = sorted(printed_on)
            w["matched"] = sorted(matched)
            return "onmatch-missing-print", w
    else:
        scanned = [ev["pln"] for ev in rec.lines if ev["considered"]]
        if "once" not in qual and [s["pln"] for s in execs] != scanned:
            w["printed_on"] = [s["pln"] for s in execs]
            w["scanned"] = scanned
            return "print-not-once-per-line", w
    return None, None


def shape_of(case):
    kinds = "".join("T" if c[0] == "text" else ("." if c[0] == "dot" else "R" + c[1][0] + ("k" if c[3] else "")) for c in case["chunks"])
    return f"{case['arr']}|{kinds}|{case['qual']}|{bool(case['gate'])}|{case.get('target')}|{case.get('prelude')}|{case.get('no_default')}"


def run_one(case, agg):
    res, w = run_case(case, agg)
    if res is None:
        agg.held(shape_of(case), any(c[0] == "ref" for c in case["chunks"]), sample={"template": render_template(case["chunks"]), "qualifier": case["qual"], "arrangement": case["arr"]})
        agg.count("arr:" + case["arr"])
    elif res == "undecided":
        agg.skipped("reference to a value the snapshot cannot resolve")
    elif res.startswith("KNOWN:"):
        agg.known_finding(res[6:], case, w, shape_of(case))
    else:
        agg.violation(res, case, w, shape_of(case))


def run_shard(spec, agg):
    from vfy import hooks

    hooks.install_line_hook()
    install_print_hook()
    for i in range(spec["n"]):
        run_one(make_case(spec["seed"], spec["shard"], i), agg)


def replay(case, agg):
    from vfy import hooks

    hooks.install_line_hook()
    install_print_hook()
    run_one(case, agg)


def finish(m, tier):
    c = m["counters"]
    return {"arrangement_coverage": {k[4:]: v for k, v in sorted(c.items()) if k.startswith("arr:")}}

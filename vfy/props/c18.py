"""C18 - a run that aborts still leaves a truthful, readable record.

Fault enumeration: every (member index, line) abort point in groups of 1-4
members over files of up to 8 lines, for the three serial and the three
breadth-first run methods, under a policy containing 'raise'; the fault is
data-driven (a cell that makes add() reject its argument, or a zero divisor that
makes mod() raise inside the function) and only the chosen member reads that
cell. Monitors: exception at the caller boundary, archive consistency checker,
tree+hash snapshots of inputs/ and of earlier members, a follow-up normal run.
"""
import os
import random

from vfy import lang

LEVEL = "fault_enumeration"
DECIDING = ["abort_points", "line_events"]
MIN_DECIDED_RATIO = 0.65  # an abort point is undecided when the member never reaches it: outside its scan, or (projection kind) on a line that does not match
RULE = (
    "for generated groups of 1-4 members and files of 2-8 lines: every (member, line) abort point x fault kind {argument rejected, "
    "exception inside the function, failure reported as a chained exception, failure outside the match part (line too short for the member's collect() projection), failure of a last() component on a blank final record, failing component followed on the same line by a firing skip() and one more component} x the six run methods, each followed by one normal run on the same instance. Non-trivial: every case "
    "(an abort happens in each); distinct = distinct (group size, member index, line, kind, method, member skeletons)."
)
ASSUMPTIONS = [
    "policy {raise, collect, print} for members (config.ini in the scratch cwd)",
    "members are pre-checked to run cleanly on the fault-free file, so the injected cell is the only fault",
]

FAULT_COMP = {
    "argtype": ["fn", "gt", [["fn", "add", [["hdr", "4"], ["int", 1]], []], ["int", -1]], []],
    "pyexc": ["fn", "gt", [["fn", "mod", [["int", 7], ["hdr", "4"]], []], ["int", -1]], []],
    # a failure the function reports with its cause attached (raise ... from ...): a chained exception
    "chained": ["fn", "date", [["hdr", "5"], ["str", "%Y-%m-%d"]], []],
    # a failure outside any match component: the member projects its collected lines onto columns 0 and 5 and the
    # fault line is too short for that (raised by the run loop after the line has matched)
    "projection": ["fn", "collect", [["int", 0], ["int", 5]], []],
    # a failure on a record without cells: the file ends in a blank line and a last() component fails there
    "blank-last": ["when", ["fn", "last", [], []], ["assign", "zz9", None, [], ["fn", "mod", [["int", 7], ["int", 0]], []]]],
}
# the failing component is followed, on the same line, by a skip() that fires there and by one more component
FAULT_COMP["then-skip"] = FAULT_COMP["argtype"]
THEN_SKIP = [["fn", "skip", [["eq", ["hdr", "4"], ["str", "zz"]]], []], ["assign", "sk9", None, [], ["fn", "count_lines", [], []]]]
FAULT_CELL = {"argtype": "zz", "pyexc": "0", "chained": "not-a-date", "projection": None, "blank-last": None, "then-skip": "zz"}
FAULT_COL = {"argtype": 4, "pyexc": 4, "chained": 5, "projection": 5, "blank-last": None, "then-skip": 4}


def plan(tier, seed):
    n = 16
    return [{"shard": i, "groups": 3 if tier == "quick" else 40, "timeout": 7200} for i in range(n)]


def clean_rows(r, n):
    rows = [["a", "b", "c", "d", "9", "2024-01-01"]]  # (the header cells of the fault columns are well-formed so a [*] scan does not fault on line 0)
    for i in range(n - 1):
        rows.append([r.choice(["1", "2", "5", "10", "11"]), r.choice(["0", "3", "9", "12"]), r.choice(["abc", "x", "Q", "zz"]), r.choice(["q", "abc", "X"]), "3", f"2024-0{r.randint(1, 9)}-1{r.randint(0, 9)}"])
    return rows


def gen_member(r, rows_clean, j):
    from vfy import env

    for _ in range(30):
        g = lang.Gen(r, ("assign", "agg", "print"))
        prog = lang.tolist(g.program(ncomp=r.randint(1, 3), scan=r.choice(["*", "1*", "1*"])))
        with open("pre.csv", "w", newline="") as f:
            f.write(lang.rows_to_text(rows_clean))
        c, cap = env.new_csvpath(["raise", "collect"])
        try:
            c.fast_forward(lang.program_text(prog, "pre.csv"))
            if not c.errors:
                return prog
        except Exception:  # noqa
            continue
    return {"scan": "*", "comps": [["fn", "yes", [], []]], "mode": "AND"}


def check_abort(case, agg):
    from vfy import archive, cps, env, hooks

    members, rows_clean, i, line, kind, method = case["members"], case["rows"], case["member"], case["line"], case["kind"], case["method"]
    n = len(members)
    rows = [list(r_) for r_ in rows_clean]
    if kind == "projection":
        rows[line] = rows[line][:5]
    elif kind == "blank-last":
        rows.append([])  # (line == len(rows_clean): the appended blank record)
    else:
        rows[line][FAULT_COL[kind]] = FAULT_CELL[kind]
    progs = [dict(p) for p in members]
    fm = dict(progs[i])
    comps = list(fm["comps"])
    at = case["pos"] % (len(comps) + 1)
    comps.insert(at, FAULT_COMP[kind])
    if kind == "then-skip":
        comps[at + 1 : at + 1] = THEN_SKIP
    fm["comps"] = comps
    progs[i] = fm
    cps.reset_sandbox()
    # the CsvPaths-level policy must not decide whether a member's 'raise' reaches the caller
    cps_policy = ["raise", "collect"] if case.get("follow", 0) % 3 else ["collect", "print"]
    env.write_config(".", csvpath_policy=["raise", "collect", "print"], csvpaths_policy=cps_policy)
    cs = env.new_csvpaths()
    cps.add_file(cs, "data", rows)
    cps.add_file(cs, "clean", rows_clean, srcname="clean.csv")
    texts = [cps.member_text(p, ident=f"m{j}") for j, p in enumerate(progs)]
    cs.paths_manager.add_named_paths(name="grp", paths=texts)
    follow_group = "grp" if (case.get("follow", 0) % 2 == 0 and kind not in ("projection", "blank-last")) else "other"
    cs.paths_manager.add_named_paths(name="other", paths=[cps.member_text(p, ident=f"m{j}") for j, p in enumerate(members)])
    inputs_before = cps.tree("inputs")
    w = {"members": texts, "rows": rows, "method": method, "abort_member": i, "abort_line": line, "kind": kind, "csvpaths_policy": cps_policy}
    with hooks.recording(agg) as rec:
        lines, exc = cps.run_method(cs, method, "grp", "data")
    agg.count("abort_points")
    # member i only reaches the fault line if its scan includes it and it was not stopped before
    reached = any(ev["id"] and ev["pln"] == line and ev.get("exc") for ev in rec.lines)
    if kind == "projection" and (exc is None or (method in cps.BYLINE and i != n - 1)):
        # the fault line did not match in that member, or the method does not project lines; in breadth-first runs the
        # projected line is what the members *after* the projecting one are handed (observation O11), so only a
        # projecting member placed last aborts the run at the intended point
        return "undecided", None
    if exc is None:
        if not reached and kind in ("argtype", "pyexc", "chained", "then-skip") and not (kind == "chained" and line == 0):
            # (date() lets a header line pass: 'chained' on line 0 is not a fault point)
            # no exception was seen anywhere: did the faulting member have the fault line put to its match part all the
            # same? (its components are all evaluated on every line it considers: no control functions, AND mode)
            try:
                mine = [r_.csvpath for r_ in cs.results_manager.get_named_results("grp") if r_.csvpath.identity == f"m{i}"]
            except Exception:  # noqa
                mine = []
            if mine and any(ev["id"] == id(mine[0]) and ev["pln"] == line and ev["considered"] for ev in rec.lines):
                w["fault_line_was_matched_by_the_member"] = True
                return "exception-swallowed", w
        if not reached:
            return "undecided", None
        return "exception-swallowed", w
    w["exception"] = f"{type(exc).__name__}: {str(exc)[:200]}"
    rd = cps.run_dirs("grp")
    if len(rd) != 1:
        w["run_dirs"] = rd
        return "run-dirs-after-abort", w
    rdir = os.path.join("archive", "grp", rd[0])
    man = cps.read_json(os.path.join(rdir, "manifest.json")) if os.path.exists(os.path.join(rdir, "manifest.json")) else {}
    if man.get("status") == "complete":
        w["run_manifest"] = {k: man.get(k) for k in ("status", "all_completed", "all_valid")}
        return "aborted-run-claims-complete", w
    results = cs.results_manager.get_named_results("grp")
    by_id = {}
    for ev in rec.lines:
        by_id.setdefault(ev["id"], []).append(ev)
    serial = method in cps.SERIAL
    started = list(range(i + 1)) if serial else list(range(n))
    for j in started:
        mdir = os.path.join(rdir, f"m{j}")
        for f in ("meta.json", "vars.json", "errors.json", "manifest.json"):
            p = os.path.join(mdir, f)
            if not os.path.exists(p):
                w["member"] = j
                return f"started-member-missing-{f}", w
            try:
                cps.read_json(p)
            except ValueError:
                w["member"] = j
                return f"started-member-unreadable-{f}", w
    # the aborting member: error with its line number on record, not completed
    mdir = os.path.join(rdir, f"m{i}")
    errs = cps.read_json(os.path.join(mdir, "errors.json"))
    if not any(e.get("line_count") == line for e in errs):
        w["errors.json"] = [(e.get("line_count"), (e.get("error") or "")[:80]) for e in errs]
        return "aborting-error-not-on-record", w
    mman = cps.read_json(os.path.join(mdir, "manifest.json"))
    f20 = False
    if mman.get("completed") is not False:
        w["member_manifest_completed"] = mman.get("completed")
        w["abort_on_final_record"] = line == len(rows) - 1
        if line != len(rows) - 1:
            return "aborted-member-marked-completed", w
        f20 = True  # known finding; every remaining obligation is still checked below
    # members that finished earlier keep complete, consistent results
    if serial:
        for j in range(i):
            r_ = results[j]
            coll = [ev["line"] for ev in by_id.get(id(r_.csvpath), []) if ev["ret"]] if method == "collect_paths" else None
            pr = archive.check_member(r_, os.path.join(rdir, f"m{j}"), coll, method)
            if pr:
                w["member"] = j
                w.update(pr[1])
                return "finished-member:" + pr[0], w
    else:
        # breadth-first: every member was cut off mid-run; what it had collected so far is on disk
        for j in range(n):
            r_ = results[j] if j < len(results) else None
            if r_ is None:
                continue
            if method == "collect_by_line" and not (kind == "projection" and j == i):
                coll = [ev["line"] for ev in by_id.get(id(r_.csvpath), []) if ev["ret"]]
                dp = os.path.join(rdir, f"m{j}", "data.csv")
                disk = cps.read_csv(dp) if os.path.exists(dp) else []
                if disk != [[str(x) for x in ln] for ln in coll]:
                    w["member"] = j
                    w["disk"] = disk[:4]
                    w["collected"] = coll[:4]
                    return "by-line-member-data.csv", w
    if cps.tree("inputs") != inputs_before:
        return "stores-changed-by-aborted-run", w
    # ---- a subsequent run on the same instance archives normally
    archive_before = cps.tree("archive")
    with hooks.recording(agg) as rec2:
        lines2, exc2 = cps.run_method(cs, "collect_paths", follow_group, "clean")
    if exc2 is not None:
        w["next_run_exception"] = f"{type(exc2).__name__}: {str(exc2)[:200]}"
        return "next-run-fails", w
    w["follow_up_group"] = follow_group
    rd2 = cps.run_dirs(follow_group)
    new = [d for d in rd2 if d not in rd] if follow_group == "grp" else rd2
    if len(new) != 1 or (follow_group != "grp" and cps.run_dirs("grp") != rd):
        w["run_dirs_after_next_run"] = {"grp": cps.run_dirs("grp"), "other": cps.run_dirs("other")}
        return "next-run-has-no-own-directory", w
    after = cps.tree("archive")
    for path, hsh in archive_before.items():
        if path != "manifest.json" and after.get(path) != hsh:
            w["file"] = path
            return "next-run-touches-aborted-run", w
    results2 = cs.results_manager.get_named_results(follow_group)
    by_id2 = {}
    for ev in rec2.lines:
        by_id2.setdefault(ev["id"], []).append(ev)
    coll2 = [[ev["line"] for ev in by_id2.get(id(r_.csvpath), []) if ev["ret"]] for r_ in results2]
    pr = archive.check_run(follow_group, new[0], results2, coll2, "collect_paths", [f"m{j}" for j in range(n)])
    if pr:
        w.update(pr[1])
        return "next-run:" + pr[0], w
    if f20:
        w["member_manifest_completed"] = True
        return "KNOWN:F20", w
    return None, None


def cases_for_group(seed, shard, gi, methods):
    from vfy import cps

    r = random.Random(f"{seed}:C18:{shard}:{gi}")
    n = r.choice([1, 2, 3, 4])
    nlines = r.randint(2, 8)
    rows = clean_rows(r, nlines)
    members = [gen_member(r, rows, j) for j in range(n)]
    k = 0
    for i in range(n):
        k += 1
        yield {"members": members, "rows": rows, "member": i, "line": nlines, "kind": "blank-last", "method": methods[k % len(methods)], "pos": 99, "follow": k}
        for line in range(0, nlines):
            for kind in ("argtype", "pyexc", "chained", "projection", "then-skip"):
                method = methods[k % len(methods)]
                if kind == "projection":
                    # only the methods that hand matched lines on through the member's projection can abort there
                    method = (cps.SERIAL + (["collect_by_line"] if i == n - 1 else []))[k % (4 if i == n - 1 else 3)]
                k += 1
                yield {"members": members, "rows": rows, "member": i, "line": line, "kind": kind, "method": method, "pos": r.randint(0, 3), "follow": k}


def run_one(case, agg):
    res, w = check_abort(case, agg)
    shape = f"{len(case['members'])}|{case['member']}|{case['line']}|{case['kind']}|{case['method']}|" + "||".join(lang.prog_shape(p) for p in case["members"])
    if res is None:
        agg.held(shape, True, sample={k: case[k] for k in ("member", "line", "kind", "method")} | {"members": [lang.program_text(p, "data") for p in case["members"]]})
        agg.count("method:" + case["method"])
    elif res == "undecided":
        agg.skipped("abort point not reached (outside the member's scan)")
    elif res.startswith("KNOWN:"):
        agg.known_finding(res[6:], case, w, shape)
    else:
        agg.violation(res, case, w, shape)


def run_shard(spec, agg):
    from vfy import cps, env, hooks

    hooks.install_line_hook()
    try:
        for gi in range(spec["groups"]):
            for case in cases_for_group(spec["seed"], spec["shard"], gi, cps.METHODS):
                run_one(case, agg)
    finally:
        env.write_config(".")


def replay(case, agg):
    from vfy import hooks

    hooks.install_line_hook()
    run_one(case, agg)


def finish(m, tier):
    return {"exhaustive": True, "exhaustive_scope": "every (member, line) abort point x the four fault kinds of each generated group; the run method rotates over the six methods across abort points"}

"""C05 - errors in match components are handled exactly as the error policy says.

Fault enumeration: every subset of {raise, collect, stop, fail, print, quiet} x
fault kind x fault position x validation-mode override, each a real run; the
oracle is the policy truth table. Monitors: LineEvent hook (where the run
stopped, which lines matched), ErrorHandler._handle_if hook, capture printer.
"""
import itertools
import os

LEVEL = "fault_enumeration"
DECIDING = ["line_events", "error_events"]
RULE = (
    "full product policy-subset(64) x fault kind x fault position(first scanned, middle, last, two lines) x "
    "validation-mode override(none; no-raise,no-stop; raise; no-print,fail; match; stop; no-fail,no-print); a two-member named-paths group whose members carry different overrides (the override is for that csvpath only); thorough adds one arg-mismatch "
    "program per numeric function, OR logic-mode and CsvPaths().csvpath() construction; argtype/pyexc faults also under unmatched-mode: keep. Non-trivial: the run reaches "
    "at least one fault line; distinct = distinct (policy, kind, position, override, variant) tuples."
)
ASSUMPTIONS = [
    "the policy is given to the CsvPath at construction (Config passed in), as config.ini would",
    "with validation-mode 'match' (and no raise) the faulting line must match for the kinds argtype, direct, pyexc, rule, righthand; nothing is asserted for the remaining kinds",
]

FLAGS = ["raise", "collect", "stop", "fail", "print", "quiet"]

# data lines: physical line 0 is the header; scan is [1*]
#  columns: a (numeric unless fault kind needs text), b, c
NLINES = 6  # physical lines 1..5 are data

POSITIONS = {"first": [1], "middle": [3], "last": [5], "two": [2, 4]}

VMODES = {
    "none": {},
    "no-raise,no-stop": {"raise": False, "stop": False},
    "raise": {"raise": True},
    "no-print,fail": {"print": False, "fail": True},
    "match": {"match": True},
    "stop": {"stop": True},
    "no-fail,no-print": {"fail": False, "print": False},
}

NUMERIC_FUNCS = {
    # name -> program template with {h} the header that is text on fault lines
    "add": "@x = add(#0, 1)",
    "subtract": "@x = subtract(#0, 1)",
    "multiply": "@x = multiply(#0, 2)",
    "divide": "@x = divide(add(#0, 0), 2)",
    "mod": "@x = mod(#0, 2)",
    "int": "@x = int(#0)",
    "float": "@x = float(#0)",
    "sum": "@x = sum(#0)",
    "gt": "gt(add(#0, 0), -1)",
    "between": "between(add(#0, 0), -1, 99)",
    "round": "@x = round(#0)",
}


def kinds(tier):
    ks = ["argtype", "rule", "pyexc", "righthand", "nested", "two-components", "direct", "stop-same-line", "empty-sibling"]
    return ks


def build(kind, faults, func=None):
    """-> (rows, match part, good-lines-match?) rows: list of [a,b,c] for physical 1..5"""
    rows = []
    for ln in range(1, NLINES):
        bad = ln in faults
        if kind in ("argtype", "nested", "two-components", "func", "direct"):
            rows.append(["zz" if bad else str(ln), "2", "t"])
        elif kind == "empty-sibling":
            # the offending line also has an empty cell that the same component tree has already read
            rows.append(["zz" if bad else str(ln), "" if bad else "2", "" if bad else "t"])
        elif kind == "stop-same-line":
            # the line that faults is also the line on which a later component stops the run; more components follow
            rows.append(["zz" if bad else str(ln), "9" if bad else "2", "t"])
        elif kind == "rule":
            # substring()'s 2nd argument must be a positive int: int(#0) < 0 on fault lines
            rows.append(["-1" if bad else "3", "5", "abcdef"])
        elif kind == "pyexc":
            # mod(#0,#1) with b == 0: ZeroDivisionError inside the function
            rows.append([str(ln), "0" if bad else "2", "t"])
        elif kind == "righthand":
            # left side true on every line; right side faults where a is text
            rows.append(["zz" if bad else str(ln), "2", "go"])
    if kind == "argtype":
        m = "@x = add(#0, 1)"
    elif kind == "rule":
        m = "@x = substring(#2, int(#0))"
    elif kind == "pyexc":
        m = "@x = mod(#0, #1)"
    elif kind == "righthand":
        m = '#2 == "go" -> @y = add(#0, 1)'
    elif kind == "nested":
        m = "and(yes(), gt(add(#0, 1), 0))"
    elif kind == "two-components":
        m = "@x = add(#0, 1) @y = subtract(#0, 1)"
    elif kind == "empty-sibling":
        m = "@y = #2 @x = add(#1, #0)"
    elif kind == "stop-same-line":
        m = "@x = add(#0, 1) stop(#1 == 9) @y = count_lines() @z = line_number()"
    elif kind == "direct":
        # the faulting function is itself the match component (its own vote is at stake under validation-mode match)
        m = "between(#0, 0, 100)"
    elif kind == "func":
        m = NUMERIC_FUNCS[func]
    return rows, m


def effective(policy, vmode):
    ov = VMODES[vmode]
    eff = {f: (f in policy) for f in ("raise", "stop", "fail", "print", "collect")}
    for k in ("raise", "stop", "fail", "print"):
        if k in ov:
            eff[k] = ov[k]
    eff["match"] = ov.get("match")
    return eff


def cases(tier):
    subsets = [list(s) for r in range(0, 7) for s in itertools.combinations(FLAGS, r)]
    for pol in subsets:
        for kind in kinds(tier):
            for pos in POSITIONS:
                for vm in VMODES:
                    yield {"policy": pol, "kind": kind, "pos": pos, "vmode": vm, "variant": "standalone", "func": None}
            # the policy assigned on the instance's config after construction (the public setter)
            if kind in ("argtype", "nested", "righthand", "direct"):
                for vm in ("none", "match", "no-print,fail"):
                    yield {"policy": pol, "kind": kind, "pos": "two", "vmode": vm, "variant": "reassigned", "func": None}
            # the csvpath also keeps its unmatched lines (the offending line does not match: it is one of them)
            if kind in ("argtype", "pyexc"):
                for pos in POSITIONS:
                    for vm in ("none", "stop"):
                        yield {"policy": pol, "kind": kind, "pos": pos, "vmode": vm, "variant": "keep-unmatched", "func": None}
            # no header row: the first offending line is physical line 0
            for pos in ("first", "two"):
                for vm in ("none", "no-raise,no-stop"):
                    yield {"policy": pol, "kind": kind, "pos": pos, "vmode": vm, "variant": "headerless", "func": None}
    # "a csvpath's validation-mode comment overrides the flags for that csvpath only": two members of one named-paths
    # group, each with its own override (or none), each faulting on the same lines
    for pol in subsets:
        if "raise" in pol or "quiet" in pol or len(pol) < 2:
            continue
        for vms in (("no-print,fail", "none"), ("none", "no-print,fail"), ("stop", "none"), ("none", "stop"), ("no-raise,no-stop", "none"), ("stop", "no-print,fail")):
            for method in ("collect_paths", "collect_by_line", "fast_forward_paths", "next_by_line"):
                yield {"policy": pol, "kind": "argtype", "pos": "two", "vmode": vms[0], "vmode_b": vms[1], "variant": "group-isolation", "func": None, "method": method}
    # 'raise' in the csvpath's policy reaches the caller of a named-paths run whatever the CsvPaths-level policy says
    for pol in subsets:
        if "raise" not in pol or "quiet" in pol or len(pol) < 2:
            continue
        for method in ("collect_paths", "fast_forward_paths", "next_paths", "collect_by_line", "fast_forward_by_line"):
            yield {"policy": pol, "kind": "argtype", "pos": "two", "vmode": "none", "variant": "group-raise", "func": None, "method": method}
    if tier == "thorough":
        for pol in subsets:
            for func in NUMERIC_FUNCS:
                for pos in ("first", "two"):
                    for vm in ("none", "no-raise,no-stop"):
                        yield {"policy": pol, "kind": "func", "pos": pos, "vmode": vm, "variant": "standalone", "func": func}
            for kind in ("argtype", "pyexc"):
                for pos in POSITIONS:
                    yield {"policy": pol, "kind": kind, "pos": pos, "vmode": "none", "variant": "or-mode", "func": None}
                    if len(pol) >= 2:
                        yield {"policy": pol, "kind": kind, "pos": pos, "vmode": "none", "variant": "via-csvpaths", "func": None}


def plan(tier, seed):
    n = 16
    return [{"shard": i, "nshards": n, "timeout": 1800} for i in range(n)]


def run_group_isolation(case, agg):
    from vfy import cps, env, hooks

    pol, pos, method = case["policy"], case["pos"], case["method"]
    faults = POSITIONS[pos]
    rows, m = build("argtype", faults)
    vms = [case["vmode"], case["vmode_b"]]
    cps.reset_sandbox()
    env.write_config(".", csvpath_policy=pol, csvpaths_policy=["collect", "print"])
    try:
        cs = env.new_csvpaths()
        cps.add_file(cs, "data", [["a", "b", "c"]] + rows)
        texts = []
        for j, vm in enumerate(vms):
            comment = f"id: m{j} " + (f"validation-mode: {vm.replace(',', ', ')} " if vm != "none" else "")
            texts.append(f"~ {comment}~ $[1*][{m}]")
        cs.paths_manager.add_named_paths(name="grp", paths=texts)
        with hooks.recording(agg) as rec:
            lines, exc = cps.run_method(cs, method, "grp", "data")
        w = {"members": texts, "policy": pol, "method": method, "fault_lines": faults}
        if exc is not None:
            w["exc"] = f"{type(exc).__name__}: {str(exc)[:200]}"
            return "group-exception", w
        results = cs.results_manager.get_named_results("grp")
        by_id = {}
        for ev in rec.lines:
            by_id.setdefault(ev["id"], []).append(ev)
        for j, r_ in enumerate(results):
            eff = effective(pol, vms[j])
            c = r_.csvpath
            processed = faults[:1] if eff["stop"] else list(faults)
            cutoff = processed[-1] if eff["stop"] else NLINES - 1
            problems = []
            got_lines = sorted(set(e.line_count for e in (r_.errors or [])))
            if eff["collect"]:
                if got_lines != processed:
                    problems.append(("collect", f"error line numbers {got_lines}", f"{processed}"))
            elif got_lines:
                problems.append(("collect", f"errors recorded for lines {got_lines} without 'collect'", "none"))
            if c.is_valid != (not eff["fail"]):
                problems.append(("fail", f"is_valid={c.is_valid}", f"is_valid={not eff['fail']}"))
            printed = len(r_.printouts or [])
            if eff["print"]:
                if printed < len(processed):
                    problems.append(("print", f"{printed} printed", f">= {len(processed)}"))
            elif printed:
                problems.append(("print", f"{printed} lines printed without 'print'", "0"))
            considered = [ev["pln"] for ev in by_id.get(id(c), []) if ev["considered"]]
            if considered != list(range(1, cutoff + 1)):
                problems.append(("stop", f"lines offered to matcher {considered}", f"{list(range(1, cutoff + 1))}"))
            if problems:
                w.update({"member": j, "effective": eff, "problems": [list(map(str, p)) for p in problems[:4]]})
                return "group-isolation:" + problems[0][0], w
        return None
    finally:
        env.write_config(".")


def run_group_raise(case, agg):
    from vfy import cps, env, hooks

    pol, method = case["policy"], case["method"]
    faults = POSITIONS[case["pos"]]
    rows, m = build("argtype", faults)
    cps.reset_sandbox()
    env.write_config(".", csvpath_policy=pol, csvpaths_policy=["collect", "print"])
    try:
        cs = env.new_csvpaths()
        cps.add_file(cs, "data", [["a", "b", "c"]] + rows)
        cs.paths_manager.add_named_paths(name="grp", paths=[f"~ id: m0 ~ $[1*][{m}]"])
        with hooks.recording(agg) as rec:
            lines, exc = cps.run_method(cs, method, "grp", "data")
        w = {"member": f"$[1*][{m}]", "policy": pol, "csvpaths_policy": ["collect", "print"], "method": method, "fault_lines": faults}
        if exc is None:
            return "raise:group", dict(w, problem="'raise' is in the csvpath's policy and a match component raised on line %d, but no exception reached the caller of the named-paths run" % faults[0])
        considered = [ev["pln"] for ev in rec.lines if ev["considered"]]
        if considered and considered[-1] != faults[0]:
            return "raise:group-stop-line", dict(w, considered=considered)
        return None
    finally:
        env.write_config(".")


def run_case(case, agg):
    from vfy import env, hooks

    if case.get("variant") == "group-isolation":
        return run_group_isolation(case, agg)
    if case.get("variant") == "group-raise":
        return run_group_raise(case, agg)
    pol, kind, pos, vm, variant = case["policy"], case["kind"], case["pos"], case["vmode"], case["variant"]
    faults = POSITIONS[pos]
    rows, m = build(kind, faults, case.get("func"))
    headerless = variant == "headerless"
    first_line = 0 if headerless else 1
    if headerless:
        faults = [f - 1 for f in faults]
    fname = f"e_{kind}_{case.get('func') or ''}_{pos}_{'nh' if headerless else 'h'}.csv"
    if not os.path.exists(fname):
        with open(fname, "w") as f:
            if not headerless:
                f.write("a,b,c\n")
            for r in rows:
                f.write(",".join(r) + "\n")
    comment = ""
    if vm != "none":
        comment += f"validation-mode: {vm.replace(',', ', ')} "
    if variant == "or-mode":
        comment += "logic-mode: OR "
    if variant == "keep-unmatched":
        comment += "unmatched-mode: keep "
    prog = (f"~ {comment}~ " if comment else "") + f"${fname}[{'*' if headerless else '1*'}][{m}]"
    eff = effective(pol, vm)
    if variant == "via-csvpaths":
        env.write_config(".", csvpath_policy=pol)
        cs = env.new_csvpaths()
        c = cs.csvpath()
        c.printers = []
        cap = env.CapturePrinter()
        c.add_printer(cap)
    elif variant == "reassigned":
        # constructed under the config.ini policy (raise, collect, stop, fail, print), then re-configured
        c, cap = env.new_csvpath(None)
        c.config.csvpath_errors_policy = list(pol)
    else:
        c, cap = env.new_csvpath(pol)
    exc = None
    with hooks.recording(agg) as rec:
        try:
            lines = c.collect(prog)
        except Exception as e:  # noqa
            exc = e
            lines = None
    if variant == "via-csvpaths":
        env.write_config(".")
    # ---------------- expected
    processed = []
    for f in faults:
        processed.append(f)
        if eff["raise"] or eff["stop"] or kind == "stop-same-line":
            break
    last_line = NLINES - 2 if headerless else NLINES - 1
    cutoff = processed[-1] if (eff["raise"] or eff["stop"] or kind == "stop-same-line") else last_line
    problems = []
    want_exc = eff["raise"]
    if (exc is not None) != want_exc:
        problems.append(("raise", f"exception={type(exc).__name__ if exc else None}: {str(exc)[:120] if exc else ''}", f"expected exception: {want_exc}"))
    elif exc is not None and type(exc).__name__ in ("AttributeError", "TypeError", "NameError", "KeyError"):
        problems.append(("crash", f"{type(exc).__name__}: {str(exc)[:160]}", "an error-policy exception"))
    errs = c.errors or []
    got_lines = sorted(set(e.line_count for e in errs))
    if eff["collect"]:
        if got_lines != processed:
            problems.append(("collect", f"error line numbers {got_lines} ({len(errs)} errors)", f"{processed}"))
    elif errs:
        problems.append(("collect", f"{len(errs)} errors collected without 'collect'", "none"))
    if eff["collect"] and not eff["raise"] and kind == "two-components" and got_lines == processed:
        # two components fail on the same line: neither error may be lost
        for ln in processed:
            n_here = sum(1 for e in errs if e.line_count == ln)
            if n_here < 2:
                problems.append(("collect-lost-second-error", f"{n_here} error(s) recorded for line {ln}", ">= 2 (two failing components)"))
    if c.is_valid != (not eff["fail"]):
        problems.append(("fail", f"is_valid={c.is_valid}", f"is_valid={not eff['fail']}"))
    printed = len(cap.lines)
    if eff["print"]:
        if printed < len(processed):
            problems.append(("print", f"{printed} printed", f">= {len(processed)}"))
    elif printed:
        problems.append(("print", f"{printed} lines printed without 'print': {cap.lines[:1]}", "0"))
    considered = [ev["pln"] for ev in rec.lines if ev["considered"]]
    want_considered = list(range(first_line, cutoff + 1))
    if considered != want_considered:
        problems.append(("stop", f"lines offered to matcher {considered}", f"{want_considered}"))
    if variant == "keep-unmatched" and exc is None:
        kept = [ln[0] for ln in (c.unmatched or [])]
        beyond = [x for x in kept if x not in [str(ev["line"][0]) for ev in rec.lines if ev["pln"] <= cutoff]]
        if beyond:
            problems.append(("stop", f"lines kept as unmatched after the run's last line {cutoff}: {beyond}", "none"))
    # match decisions per line
    for ev in rec.lines:
        if not ev["considered"]:
            continue
        ln = ev["pln"]
        if ln in faults:
            if eff["match"]:
                # validation-mode match: an argument mismatch in the only/every component lets the line match
                if kind in ("argtype", "direct", "pyexc", "rule", "righthand") and not eff["raise"] and not ev.get("exc") and ev["ret"] is not True:
                    problems.append(("match-mode", f"fault line {ln} did not match under validation-mode match", "matches"))
                continue
            if ev.get("exc"):
                continue
            if ev["ret"] is not False:
                problems.append(("match", f"fault line {ln} matched", "does not match"))
        elif variant != "or-mode":
            # (in OR mode an assignment's vote is neutral, so good lines of these programs do not match)
            if ev["ret"] is not True:
                problems.append(("match", f"good line {ln} did not match", "matches"))
    if lines is not None:
        got = [ln[0] for ln in lines]
        want = [str(ev["line"][0]) for ev in rec.lines if ev["ret"] is True]
        if got != want:
            problems.append(("returned", got, want))
    # handler monitor: one _handle_if per handled error, none on good lines
    for h in rec.errors_handled:
        if h["pln"] not in faults:
            problems.append(("handler", f"error handled on line {h['pln']}", f"only on {faults}"))
            break
    if problems:
        cls = problems[0][0]
        if "quiet" in pol and cls in ("raise", "crash") and exc is not None and type(exc).__name__ == "AttributeError":
            cls = "quiet-crash"
        return cls, {"program": prog, "policy": pol, "effective": eff, "fault_lines": faults, "problems": [list(map(str, p)) for p in problems[:5]]}
    return None


def run_shard(spec, agg):
    from vfy import hooks

    hooks.install_line_hook()
    hooks.install_error_hook()
    for i, case in enumerate(cases(spec["tier"])):
        if i % spec["nshards"] != spec["shard"]:
            continue
        res = run_case(case, agg)
        shape = "|".join(str(case.get(k)) for k in ("policy", "kind", "pos", "vmode", "variant", "func", "vmode_b", "method"))
        if res is None:
            agg.held(shape, True, sample=case)
        else:
            agg.violation(res[0] + ":" + case["kind"], case, res[1], shape)


def replay(case, agg):
    from vfy import hooks

    hooks.install_line_hook()
    hooks.install_error_hook()
    res = run_case(case, agg)
    if res is None:
        agg.held("replay", True)
    else:
        agg.violation(res[0], case, res[1])


def finish(m, tier):
    return {"exhaustive": True, "exhaustive_scope": "2^6 policy subsets x fault kinds x positions x validation-mode overrides listed in rule"}

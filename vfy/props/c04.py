"""C04 - the validity verdict is False exactly when the csvpath failed the file.

Standalone part: generated programs with conditional fail()/fail_and_stop()
components (bare, under '->', onmatch, after skip/stop) and error-provoking
components under every policy with and without 'fail'. Monitors: a recording
property replacing CsvPath.is_valid (ValidEvents: old, new, line, cause frame;
online assertion 'never False -> True'), the LineEvent hook (verdict after every
line, per-line captures of valid()/failed()) and the reference evaluator's
execution set. Named-paths part: see vfy.cps (aggregation = conjunction).
"""
import itertools
import random

from vfy import lang

LEVEL = "exploration"
DECIDING = ["line_events", "valid_events"]
MIN_DECIDED_RATIO = 0.5
WHAT = ("match", "vars", "counters", "valid")
KNOWN_SWITCHES = ("F9", "F9b")
RULE = (
    "random programs of 1-5 components drawn from {fail(), fail_all(), c->fail(), c->fail_all(), not(c)->fail(), fail.onmatch(), fail_and_stop(c), c->fail_and_stop(), "
    "skip(c2)/stop(c2) before a fail form, @v = valid(), failed() -> push, push, an error-provoking vote gt(add(#3,1),0)} x random flag files x "
    "all 16 subsets of {collect, stop, fail, print}; plus groups of 1-4 such members (12% switched off by run-mode, 15% an early finisher next to a fail_all() judge, a fifth with a member that cannot be built under a non-raising CsvPaths-level policy, 4% on an empty file) run through the six CsvPaths methods, where "
    "results_manager.is_valid, the run manifest's all_valid and the member manifests' valid are compared with the members' verdicts. "
    "Non-trivial: some line executes a fail form or handles an error; distinct = distinct (program skeleton, flag vectors, policy)."
)
ASSUMPTIONS = [
    "allowed causes of a verdict change: Fail/FailAll._decide_match, Stopper._stop_me (fail_and_stop), ErrorHandler._handle_if under an effective 'fail', Function.matches (validation-mode fail), CsvPaths fail_all propagation",
]

C_F = ("eq", ("hdr", "1"), ("str", "F"))
C_S = ("eq", ("hdr", "2"), ("str", "S"))
ERRC = ("fn", "gt", [("fn", "add", [("hdr", "3"), ("int", 1)], []), ("int", 0)], [])


def fail_forms(r):
    return r.choice(
        [
            ("fn", "fail", [], []),
            ("when", C_F, ("fn", "fail", [], [])),
            ("when", C_F, ("fn", "fail", [], [])),
            ("when", ("fn", "not", [C_F], []), ("fn", "fail", [], [])),
            ("fn", "fail", [], ["onmatch"]),
            ("fn", "fail_all", [], []),
            ("when", C_F, ("fn", "fail_all", [], [])),
            ("fn", "fail_and_stop", [C_F], []),
            ("when", C_F, ("fn", "fail_and_stop", [], [])),
        ]
    )


def other_forms(r, i):
    return r.choice(
        [
            ("fn", "push", [("str", f"s{i}"), ("hdr", "0")], []),
            ("assign", f"v{i}", None, [], ("fn", "valid", [], [])),
            ("when", ("fn", "failed", [], []), ("fn", "push", [("str", "f"), ("hdr", "0")], [])),
            ("fn", "skip", [C_S], []),
            ("fn", "stop", [C_S], []),
            ("when", C_S, ("fn", "skip", [], [])),
            ERRC,
            ERRC,
            C_F,
            ("fn", "yes", [], []),
            ("fn", "push", [("str", "om"), ("hdr", "0")], ["onmatch"]),
        ]
    )


def make_case(seed, shard, i):
    r = random.Random(f"{seed}:C04:{shard}:{i}")
    n = r.randint(1, 5)
    nf = r.randint(1, min(2, n))
    comps = [other_forms(r, j) for j in range(n - nf)]
    for _ in range(nf):
        comps.insert(r.randint(0, len(comps)), fail_forms(r))
    rows = []
    for k in range(r.randint(2, 7)):
        if r.random() < 0.08:
            rows.append([])
            continue
        rows.append([f"r{k}", r.choice(["F", "n", "n"]), r.choice(["S", "n", "n", "n"]), r.choice(["5", "5", "7", "zz"])])
    if r.random() < 0.1:
        rows.append([])
    pol = [f for f in ("collect", "stop", "fail", "print") if r.random() < 0.5]
    scan = r.choice(["*", "*", "1*", "0-3", "1-4"])
    prog = {"scan": scan, "comps": comps, "mode": "AND"}
    if r.random() < 0.12 and "onmatch" not in repr(comps):
        prog["mode"] = "OR"  # logic-mode: OR - the verdict and what failed()/valid() report do not depend on it
    if r.random() < 0.25:
        # the csvpath's own validation-mode: each token overrides the corresponding configured flag for this csvpath
        toks = r.sample(["fail", "no-fail", "stop", "no-stop", "no-raise"], r.randint(1, 2))
        if not ({"fail", "no-fail"} <= set(toks)) and not ({"stop", "no-stop"} <= set(toks)):
            prog["comment"] = "validation-mode: " + ", ".join(toks) + " "
    return prog, rows, pol


def effective_policy(prog, pol):
    c = prog.get("comment") or ""
    if "validation-mode:" not in c:
        return None
    toks = [t.strip() for t in c.split("validation-mode:")[1].split(",")]
    eff = set(pol)
    for flag in ("fail", "stop", "raise", "print"):
        if "no-" + flag in toks:
            eff.discard(flag)
        elif flag in toks:
            eff.add(flag)
    return [f for f in ("collect", "stop", "fail", "print", "raise") if f in eff]


ALLOWED_CAUSES = {
    ("Fail", "_decide_match"),
    ("FailAll", "_decide_match"),
    ("Stop", "_stop_me"),
    ("StopAll", "_stop_me"),
    ("ErrorHandler", "_handle_if"),
}


def valid_monitor(real, mtrace, m):
    rec = real["rec"]
    for v in rec.violations:
        if v[0] == "valid-reset":
            return {"kind": "verdict-reset-to-true", "pln": v[1], "cause": v[2]}
    for pln, old, new, cause in rec.valid:
        if new is False:
            cls, _, fn = cause.partition(".")
            if (cls, fn) not in ALLOWED_CAUSES and not (fn == "matches"):
                return {"kind": "verdict-set-by-unexpected-site", "pln": pln, "cause": cause}
        elif new is True and old is True:
            continue
    # errors collected on exactly the lines where the documented semantics see an error
    c = real["csvpath"]
    if m.policy is not None and "collect" in m.policy:
        got = sorted(set(e[0] for e in real["errors"]))
        want = sorted(mt["pln"] for mt in mtrace if mt.get("errs"))
        if got != want:
            return {"kind": "error-lines", "real": got, "model": want}
    final_model = mtrace[-1]["valid"] if mtrace else True
    if c.is_valid != final_model:
        return {"kind": "final-verdict", "real": c.is_valid, "model": final_model}
    return None


def run_one(prog, rows, pol, agg):
    from vfy import diffrun

    prog = lang.tolist(prog)
    # (what a side-effect-only component votes under logic-mode: OR is not part of this property: for OR programs the
    # verdict, what valid()/failed() report through the variables, and the error lines are compared, not the matches)
    what = WHAT if prog.get("mode") != "OR" else ("vars", "valid")
    status, info = diffrun.decide(prog, rows, agg, what, KNOWN_SWITCHES, extra_check=valid_monitor, policy=pol, model_policy=effective_policy(prog, pol))
    flags = "/".join("".join(r[1:4]) if r else "B" for r in rows)
    shape = lang.prog_shape(prog) + "|" + flags + "|" + ",".join(pol)
    case = {"prog": prog, "rows": rows, "policy": pol}
    if status == "held":
        nontriv = info["verdict_changes"] > 0 or info["errors_handled"] > 0
        agg.held(shape, nontriv, sample={"program": info["program"], "rows": rows, "policy": pol, "verdict_changes": info["verdict_changes"]} if nontriv else None)
    elif status == "undecided":
        agg.skipped(info)
    elif status == "known":
        agg.known_finding(info[0], case, info[1], shape)
    else:
        agg.violation(info[0], case, info[1], shape)


def plan(tier, seed):
    n = 16
    per = 1500 if tier == "quick" else 30000
    return [{"shard": i, "n": per, "groups": 25 if tier == "quick" else 500, "timeout": 3600} for i in range(n)]


def run_shard(spec, agg):
    from vfy import hooks

    hooks.install_line_hook()
    hooks.install_valid_hook()
    for i in range(spec["n"]):
        prog, rows, pol = make_case(spec["seed"], spec["shard"], i)
        run_one(prog, rows, pol, agg)
    try:
        from vfy import cps
    except ImportError:
        return
    cps.validity_groups(spec, agg, make_case)


def replay(case, agg):
    from vfy import hooks

    hooks.install_line_hook()
    hooks.install_valid_hook()
    if "group" in case:
        from vfy import cps

        cps.replay_validity_group(case, agg)
        return
    run_one(case["prog"], case["rows"], case["policy"], agg)

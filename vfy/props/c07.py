"""C07 - collect(), next() and fast_forward() are the same run.

Relational monitor: the same generated (program, file) is run through the three
entry points and through collect(nexts=n) for every n in 1..matches+1; the
LineEvent traces, side-effect events, final state and returned lines are compared.
No reference model is involved - the runs are each other's oracle.
"""
import random

from vfy import lang

LEVEL = "exploration"
DECIDING = ["line_events"]
MIN_DECIDED_RATIO = 0.9
FEATURES = ("assign", "agg", "onmatch", "control", "fail", "print", "wide", "rewrite")
RULE = (
    "random programs (assignments, aggregates, onmatch, stop/skip/advance/last, fail forms, print, the line-rewriting collect()/replace()/append() "
    "functions) x mode comments (return/unmatched/print/validation/run-mode) x random files (ragged, blank records), 10% with skip_blank_lines=False, policy {collect, print}; "
    "per case: collect vs next vs fast_forward (trace, final variables/counters/validity/stopped/errors/printouts, returned lines) and "
    "collect(nexts=n) for all n in 1..matches+1 (prefix of collect(); LineEvents are a prefix of the full trace; no set_variable/print "
    "tagged with a line beyond the n-th returned line) and one collect(nexts=2, lines=<a list already holding three lines>) run (same list back, held lines untouched, then collect()[:2]). Non-trivial: at least one line matches; distinct = distinct (program skeleton, file kind vector)."
)
ASSUMPTIONS = ["time-, random- and fingerprint-valued functions are not generated", "error objects are compared by (line, message)"]


def plan(tier, seed):
    n = 16
    per = 400 if tier == "quick" else 8000
    return [{"shard": i, "n": per, "timeout": 3600} for i in range(n)]


def make_case(seed, shard, i):
    r = random.Random(f"{seed}:C07:{shard}:{i}")
    prog, rows = lang.gen_case(r, FEATURES)
    prog["comment"] = lang.random_mode_comment(r, 0.45, allow=("return-mode", "unmatched-mode", "print-mode", "validation-mode", "run-mode"))
    prog = lang.tolist(prog)
    if r.random() < 0.1:
        prog["csvpath_kw"] = {"skip_blank_lines": False}
    return prog, rows


def final_state(real):
    from vfy import diffrun

    c = real["csvpath"]
    lm = c._line_monitor
    return {
        "vars": diffrun.norm_vars({k: v for k, v in c.variables.items() if not str(k).startswith("_intx_")}),
        "scan": c.scan_count,
        "match": c.match_count,
        "valid": c.is_valid,
        "stopped": c.stopped,
        "errors": real["errors"],
        "printed": real["printed"],
        "exc": real["exc"],
        "line_monitor": (lm.physical_line_number, lm.physical_line_count, lm.data_line_count, lm.data_line_number) if lm is not None else None,
    }


def trace_of(real):
    from vfy import diffrun

    return [(ev["pln"], ev["considered"], bool(ev["ret"]), diffrun.norm_vars(ev["vars"]), ev["valid"], ev["stopped"], ev["scan"], ev["match"]) for ev in real["rec"].lines]


def run_case(prog, rows, agg):
    from vfy import diffrun, env, hooks

    pol = ("collect", "print")
    kw = prog.get("csvpath_kw") or {}
    a = diffrun.real_run(prog, rows, agg, policy=pol, method="collect", **kw)
    b = diffrun.real_run(prog, rows, agg, policy=pol, method="next", **kw)
    c = diffrun.real_run(prog, rows, agg, policy=pol, method="fast_forward", **kw)
    w = {"program": a["text"], "rows": rows, "csvpath_kw": kw}
    if a["exc"] or b["exc"] or c["exc"]:
        if not (a["exc"] == b["exc"] == c["exc"]):
            w["exceptions"] = {"collect": a["exc"], "next": b["exc"], "fast_forward": c["exc"]}
            return "exception-differs", w, 0
        agg.count("same_exception_on_all_entry_points")
        agg.note(f"{a['exc'][:120]} :: {a['text'][:200]}")
        # the same failure on all three entry points: they must also have got equally far
        fa = final_state(a)
        for name, other in (("next", b), ("fast_forward", c)):
            fo = final_state(other)
            for k in fa:
                if fa[k] != fo[k]:
                    w.update({"field": k, "collect": fa[k], name: fo[k], "exception": a["exc"]})
                    return f"final-{k}-collect-vs-{name}-after-exception", w, 0
        return None, None, 0
    if b.get("lines_changed_after_yield"):
        w["yielded"] = b["lines_at_yield"][:6]
        w["same_objects_after_the_run"] = b["lines"][:6]
        return "next-yielded-line-changed-afterwards", w, 0
    if a["lines"] != b["lines"]:
        w["collect"] = a["lines"][:5]
        w["next"] = b["lines"][:5]
        return "collect-vs-next-lines", w, 0
    ta, tb, tc = trace_of(a), trace_of(b), trace_of(c)
    for name, t in (("next", tb), ("fast_forward", tc)):
        if t != ta:
            for i, (x, y) in enumerate(zip(ta + [None] * 30, t + [None] * 30)):
                if x != y:
                    break
            w["first_diff"] = {"vs": name, "index": i, "collect": x, "other": y}
            return f"trace-collect-vs-{name}", w, 0
    fa = final_state(a)
    for name, other in (("next", b), ("fast_forward", c)):
        fo = final_state(other)
        for k in fa:
            if fa[k] != fo[k]:
                w["field"] = k
                w["collect"] = fa[k]
                w[name] = fo[k]
                return f"final-{k}-collect-vs-{name}", w, 0
    # ---- collect(nexts=n)
    full = a["lines"]
    evs = a["rec"].lines
    ret_lines = [ev["pln"] for ev in evs if ev["ret"]]
    with open("p.csv", "w", newline="") as f:
        f.write(lang.rows_to_text(rows))
    for n in range(1, len(full) + 2):
        cp, cap = env.new_csvpath(list(pol), **kw)
        with hooks.recording(agg) as rec:
            try:
                got = cp.collect(a["text"], nexts=n)
            except Exception as e:  # noqa
                w["nexts"] = n
                w["exc"] = repr(e)[:200]
                return "nexts-exception", w, len(full)
        if got != full[:n]:
            w["nexts"] = n
            w["got"] = got[:6]
            w["want"] = full[:n][:6]
            return "nexts-lines", w, len(full)
        limit = ret_lines[n - 1] if n <= len(ret_lines) else None
        tn = [(ev["pln"], ev["considered"], bool(ev["ret"])) for ev in rec.lines]
        tfull = [(ev["pln"], ev["considered"], bool(ev["ret"])) for ev in evs]
        if tn != tfull[: len(tn)]:
            w["nexts"] = n
            return "nexts-trace-not-a-prefix", w, len(full)
        if limit is not None:
            late = [e for e in rec.setvars if e[0] is not None and e[0] > limit] + [e for e in rec.prints if e[0] is not None and e[0] > limit]
            if late or (rec.lines and rec.lines[-1]["pln"] > limit):
                w["nexts"] = n
                w["limit_line"] = limit
                w["late_effects"] = [list(map(str, e)) for e in late[:4]]
                w["last_line_event"] = rec.lines[-1]["pln"] if rec.lines else None
                return "nexts-side-effect-of-a-later-line", w, len(full)
    # ---- collect(nexts=n, lines=<a list that already holds lines>): the budget is n more lines, whatever the sink holds
    if full:
        n = min(2, len(full))
        sink = [["held", "1"], ["held", "2"], ["held", "3"]]
        cp, cap = env.new_csvpath(list(pol), **kw)
        with hooks.recording(agg) as rec:
            try:
                got = cp.collect(a["text"], nexts=n, lines=sink)
            except Exception as e:  # noqa
                w["nexts"] = n
                w["exc"] = repr(e)[:200]
                return "nexts-prefilled-sink-exception", w, len(full)
        agg.count("nexts_prefilled_sink_runs")
        if got is not sink or got[:3] != [["held", "1"], ["held", "2"], ["held", "3"]] or got[3:] != full[:n]:
            w["nexts"] = n
            w["got"] = got[:8]
            w["want_after_held"] = full[:n][:6]
            return "nexts-prefilled-sink-lines", w, len(full)
    return None, None, len(full)


def has_fn(n, name):
    if isinstance(n, (list, tuple)):
        if len(n) > 1 and n[0] == "fn" and n[1] == name:
            return True
        return any(has_fn(x, name) for x in n)
    return False


def f24_applies(prog, rows, w, agg):
    """F24: only collect() keeps unmatched lines, so only collect() projects them through the csvpath's collect(...)
    function and raises 'unknown header name' on an unmatched line that is too short. Attributed only when (a) collect()
    raised that exception while next() and fast_forward() agree with each other (nothing, or the same later failure), (b) the csvpath keeps unmatched lines and uses collect(...), and (c) the same csvpath
    without 'unmatched-mode: keep' passes every obligation of this check."""
    exc = w.get("exceptions") or {}
    ce = exc.get("collect") or ""
    # (limit_collection raises InputException 'unknown header name' for an index past the line, IndexError for the
    # 'header not found' sentinel index)
    if not ((ce.startswith("InputException") and "unknown header name" in ce) or ce.startswith("IndexError")):
        return False
    if exc.get("next") != exc.get("fast_forward"):
        return False  # next() and fast_forward() must still agree with each other (they may fail later, on a matched line)
    comment = prog.get("comment", "")
    if "unmatched-mode: keep" not in comment or not any(has_fn(c, "collect") for c in prog["comps"]):
        return False
    twin = dict(prog, comment=comment.replace("unmatched-mode: keep", "unmatched-mode: no-keep"))
    res, _, _ = run_case(twin, rows, agg)
    return res is None


def run_one(prog, rows, agg):
    res, w, nmatch = run_case(prog, rows, agg)
    if res == "exception-differs" and f24_applies(prog, rows, w, agg):
        agg.known_finding("F24", {"prog": prog, "rows": rows}, w, lang.prog_shape(prog))
        return
    shape = lang.prog_shape(prog) + "|" + "/".join("B" if not r else str(len(r)) for r in rows)
    if res is None:
        agg.held(shape, nmatch > 0, sample={"program": lang.program_text(prog, "p.csv"), "rows": rows[:4], "matches": nmatch})
        agg.count("nexts_runs", nmatch + 1)
    else:
        agg.violation(res, {"prog": prog, "rows": rows}, w, shape)


def run_shard(spec, agg):
    from vfy import hooks

    hooks.install_line_hook()
    hooks.install_sidefx_hook()
    for i in range(spec["n"]):
        prog, rows = make_case(spec["seed"], spec["shard"], i)
        run_one(prog, rows, agg)


def replay(case, agg):
    from vfy import hooks

    hooks.install_line_hook()
    hooks.install_sidefx_hook()
    run_one(case["prog"], case["rows"], agg)

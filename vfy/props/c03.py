"""C03 - variables and run counters end up with the values the csvpath assigns.

Same differential engine as C01, with variable-writing programs (assignments with
and without tracking values, stack and aggregate functions with name qualifiers)
and the per-line variables / scan_count / match_count of the LineEvent hook
compared with the reference evaluator's fold over lines and components.
Independent conservation monitors run on every real trace as well.
"""
from vfy.props import c01

LEVEL = "exploration"
DECIDING = ["line_events"]
MIN_DECIDED_RATIO = 0.5
FEATURES = ("assign", "agg", "onmatch", "wide", "nested-onmatch")
WHAT = ("match", "vars", "counters")
KNOWN_SWITCHES = ("F1", "F9b")
RULE = (
    "random variable-writing programs (plain / tracking-keyed / stack variables; count tally sum subtotal counter every first "
    "push push_distinct pop peek peek_size with name qualifiers; onmatch on side-effecting components) x random files; per line "
    "the visible variables, scan_count and match_count are compared with the reference fold. Non-trivial: the program writes at "
    "least one variable and at least one line is scanned; distinct = distinct (program skeleton, file kind vector)."
)
ASSUMPTIONS = c01.ASSUMPTIONS + ["variables whose name starts with the internal '_intx_' id prefix are bookkeeping and excluded from comparison"]


def plan(tier, seed):
    n = 16
    per = 2500 if tier == "quick" else 50000
    return [{"shard": i, "n": per, "timeout": 3600} for i in range(n)]


def run_shard(spec, agg):
    c01.run_shard(spec, agg, prop="C03", features=FEATURES, what=WHAT, known=KNOWN_SWITCHES)


def replay(case, agg):
    c01.replay(case, agg, what=WHAT, known=KNOWN_SWITCHES)


finish = c01.finish

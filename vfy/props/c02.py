"""C02 - the scan part selects exactly the lines it denotes.

Exhaustive (within stated bounds) end-to-end runs of `$file[scan][push("ls", line_number())]`
on files with blank records in every position; the oracle is the denotation of
the scan string computed from the generating AST. Monitors: LineEvent hook
(which physical lines were offered to the matcher), icontract postconditions on
Scanner.includes / Scanner.is_last evaluated on every call of the real run.
"""
import itertools
import os

LEVEL = "exploration"
DECIDING = ["line_events", "includes_contract_evals"]
RULE = (
    "enumeration of (scan string, file layout): scan in {*, N*, N, a-b either order, +-lists of <=K numbers/forward "
    "ranges ascending non-overlapping} with bounds 0..N+2; file = N records, every subset of positions blank "
    "(thorough caps blanks per the tier table); every 13th case is also run as a member of a two-member named-paths group through "
    "collect_paths, collect_by_line, fast_forward_by_line and next_by_line. A case is non-trivial when the denoted set contains at least one "
    "non-blank record of the file; distinct = distinct (scan string, layout) pairs."
)
ASSUMPTIONS = ["a record is blank iff csv.reader yields [] for it", "records are two short ASCII cells, unique per line"]


# ------------------------------------------------------------------ enumeration
def scan_items(B, maxlist):
    """yield (text, ast). ast: ('all',) ('from',n) ('set', frozenset)"""
    yield "*", ("all",)
    for n in range(B + 1):
        yield f"{n}*", ("from", n)
        yield f"{n}", ("set", frozenset([n]))
    for a in range(B + 1):
        for b in range(B + 1):
            if a == b:
                continue
            lo, hi = min(a, b), max(a, b)
            yield f"{a}-{b}", ("set", frozenset(range(lo, hi + 1)))
    # + lists: items are numbers or forward ranges, ascending, non-overlapping
    def rec(start, k):
        if k == 0:
            yield [], frozenset()
            return
        for a in range(start, B + 1):
            # number
            for rest, s in rec(a + 1, k - 1):
                yield [f"{a}"] + rest, s | {a}
            for b in range(a + 1, B + 1):
                for rest, s in rec(b + 1, k - 1):
                    yield [f"{a}-{b}"] + rest, s | set(range(a, b + 1))

    for k in range(2, maxlist + 1):
        for items, s in rec(0, k):
            yield "+".join(items), ("set", frozenset(s))


def layouts(N, maxblank):
    for k in range(0, min(maxblank, N - 1) + 1):
        for blanks in itertools.combinations(range(N), k):
            yield blanks


def tier_table(tier):
    # (N, max list items, max blanks, sample stride)
    if tier == "quick":
        return [(1, 2, 0, 1), (2, 3, 1, 1), (3, 3, 2, 1), (4, 3, 3, 1), (5, 3, 2, 1), (6, 3, 1, 3)]
    return [(1, 2, 0, 1), (2, 3, 1, 1), (3, 4, 2, 1), (4, 4, 3, 1), (5, 4, 3, 1), (6, 4, 3, 1), (7, 3, 3, 1), (8, 3, 2, 2), (10, 3, 1, 5)]


def plan(tier, seed):
    nshards = 16 if tier == "quick" else 48
    return [{"shard": i, "nshards": nshards, "timeout": 1500 if tier == "quick" else 7200} for i in range(nshards)]


def denoted(ast, N):
    if ast[0] == "all":
        return set(range(N))
    if ast[0] == "from":
        return set(range(ast[1], N))
    return {x for x in ast[1] if x < N}


# ------------------------------------------------------------------ worker
_CUR = {"ast": None, "agg": None, "viol": None}


def _install_contracts(agg):
    import icontract
    from csvpath.scanning.scanner import Scanner

    if getattr(Scanner, "_vfy_contract", False):
        return

    class ContractBroken(Exception):
        pass

    def includes_is_membership(self, line, result):
        ast = _CUR["ast"]
        if ast is None or line is None:
            return True
        _CUR["agg"].count("includes_contract_evals")
        if ast[0] == "all":
            exp = True
        elif ast[0] == "from":
            exp = line >= ast[1]
        else:
            exp = line in ast[1]
        if bool(result) != exp:
            _CUR["viol"].append(("includes", line, bool(result), exp))
        return True

    def is_last_is_sound(self, line, result):
        ast = _CUR["ast"]
        if ast is None:
            return True
        _CUR["agg"].count("is_last_contract_evals")
        if result and ast[0] == "set" and any(x > line for x in ast[1]):
            # declaring the scan finished while denoted lines remain
            _CUR["viol"].append(("is_last-early", line, True, False))
        return True

    Scanner.includes = icontract.ensure(includes_is_membership, error=ContractBroken)(Scanner.includes)
    Scanner.is_last = icontract.ensure(is_last_is_sound, error=ContractBroken)(Scanner.is_last)
    Scanner._vfy_contract = True


def write_file(path, N, blanks):
    with open(path, "w", newline="") as f:
        for i in range(N):
            # (one record ends in a backslash: an ordinary character, e.g. the root of a Windows drive)
            f.write("\n" if i in blanks else (f"r{i},D:\\\n" if i == 1 else f"r{i},x\n"))


def run_case(scan, ast, N, blanks, agg):
    """returns None if held, else (cls, detail)"""
    from vfy import env, hooks

    fname = f"f{N}_{'_'.join(map(str, blanks)) or 'n'}.csv"
    if not os.path.exists(fname):
        write_file(fname, N, blanks)
    nonblank = [i for i in range(N) if i not in blanks]
    exp = sorted(denoted(ast, N) & set(nonblank))
    prog = f'${fname}[{scan}][push("ls", line_number())]'
    _CUR["ast"] = ast
    _CUR["viol"] = []
    c, cap = env.new_csvpath(["raise", "collect"])
    with hooks.recording(agg) as rec:
        try:
            lines = c.collect(prog)
        except Exception as e:  # noqa
            _CUR["ast"] = None
            return "exception", {"program": prog, "N": N, "blanks": list(blanks), "exc": repr(e)[:300]}
    _CUR["ast"] = None
    considered = [ev["pln"] for ev in rec.lines if ev["considered"]]
    returned = [ln[0] for ln in lines]
    ls = list(c.variables.get("ls", []))
    want_ret = [f"r{i}" for i in exp]
    problems = []
    if considered != exp:
        problems.append(("offered-to-matcher", considered, exp))
    if returned != want_ret:
        problems.append(("returned", returned, want_ret))
    if c.scan_count != len(exp):
        problems.append(("scan_count", c.scan_count, len(exp)))
    if ls != exp:
        problems.append(("line_number()", ls, exp))
    if c.match_count != len(exp):
        problems.append(("match_count", c.match_count, len(exp)))
    for v in _CUR["viol"]:
        problems.append(("contract:" + v[0], v[1:], None))
    if problems:
        zero = (ast[0] == "set" and 0 in ast[1]) or (ast[0] == "from" and ast[1] == 0)
        cls = problems[0][0].split(":")[0] + ("-with-line0" if zero else "")
        return cls, {"program": prog, "N": N, "blanks": list(blanks), "expected_lines": exp, "problems": problems[:6]}
    return None


GROUP_METHODS = ["collect_paths", "collect_by_line", "fast_forward_by_line", "next_by_line"]


def run_group_case(scan, ast, N, blanks, agg):
    """the same scan part as a member of a named-paths group, run serially and breadth-first (the breadth-first
    runs read the file themselves and feed every member line by line)"""
    from vfy import cps, env, hooks

    cps.reset_sandbox()
    cs = env.new_csvpaths()
    # (records repeat in pairs here: lines are told apart by their position, not by what they hold)
    rows = [[] if i in blanks else [f"g{i // 2}", "D:\\" if i == 1 else "x"] for i in range(N)]
    cps.add_file(cs, "data", rows)
    cs.paths_manager.add_named_paths(name="g", paths=[f'~ id: m0 ~ $[{scan}][push("ls", line_number())]', "~ id: m1 ~ $[*][yes()]"])
    nonblank = [i for i in range(N) if i not in blanks]
    exp = sorted(denoted(ast, N) & set(nonblank))
    for method in GROUP_METHODS:
        inst = env.new_csvpaths()
        _CUR["ast"] = None  # the contract oracle knows one scan; the group has two members
        with hooks.recording(agg) as rec:
            lines, exc = cps.run_method(inst, method, "g", "data")
        agg.count("group_runs")
        w = {"member": f'$[{scan}][push("ls", line_number())]', "method": method, "N": N, "blanks": list(blanks), "expected_lines": exp}
        if exc is not None:
            w["exc"] = f"{type(exc).__name__}: {str(exc)[:200]}"
            return "group-exception", w
        res = inst.results_manager.get_named_results("g")
        m0 = [r_ for r_ in res if r_.csvpath.identity == "m0"][0].csvpath
        considered = [ev["pln"] for ev in rec.lines if ev["id"] == id(m0) and ev["considered"]]
        problems = []
        if considered != exp:
            problems.append(("offered-to-matcher", considered, exp))
        if list(m0.variables.get("ls", [])) != exp:
            problems.append(("line_number()", list(m0.variables.get("ls", [])), exp))
        if m0.scan_count != len(exp) or m0.match_count != len(exp):
            problems.append(("scan_count/match_count", [m0.scan_count, m0.match_count], len(exp)))
        if method in ("collect_by_line", "next_by_line"):
            # the second member keeps every record: the run hands back every non-blank record, each once, in file order
            want = [rows[i] for i in nonblank]
            got = [[str(x) for x in ln] for ln in (lines or [])]
            if got != want:
                problems.append(("returned-lines", got[:8], want[:8]))
        if problems:
            w["problems"] = problems
            return "group:" + problems[0][0] + ":" + ("serial" if method in cps.SERIAL else "by_line"), w
    return None


def run_shard(spec, agg):
    from vfy import hooks

    hooks.install_line_hook()
    _CUR["agg"] = agg
    _install_contracts(agg)
    idx = 0
    shard, nsh = spec["shard"], spec["nshards"]
    for N, maxlist, maxblank, stride in tier_table(spec["tier"]):
        B = N + 2
        scans = list(scan_items(B, maxlist))
        for blanks in layouts(N, maxblank):
            for si, (scan, ast) in enumerate(scans):
                idx += 1
                if idx % nsh != shard:
                    continue
                if stride > 1 and (si + len(blanks) + N) % stride != 0 and "+" in scan:
                    continue
                res = run_case(scan, ast, N, blanks, agg)
                if res is None and (idx // nsh) % 13 == 0:
                    res = run_group_case(scan, ast, N, blanks, agg)
                shape = f"{scan}|{N}|{blanks}"
                nontriv = bool(denoted(ast, N) - set(blanks))
                if res is None:
                    agg.held(shape, nontriv, sample={"program": f"$f.csv[{scan}][push(\"ls\", line_number())]", "records": N, "blank_positions": list(blanks)})
                else:
                    agg.violation(res[0], {"scan": scan, "ast": [ast[0], sorted(ast[1]) if ast[0] == "set" else (ast[1] if len(ast) > 1 else None)], "N": N, "blanks": list(blanks)}, res[1], shape)


def replay(case, agg):
    from vfy import hooks

    hooks.install_line_hook()
    _CUR["agg"] = agg
    _install_contracts(agg)
    a = case["ast"]
    ast = ("all",) if a[0] == "all" else (("from", a[1]) if a[0] == "from" else ("set", frozenset(a[1])))
    res = run_case(case["scan"], ast, case["N"], tuple(case["blanks"]), agg)
    if res is None:
        res = run_group_case(case["scan"], ast, case["N"], tuple(case["blanks"]), agg)
    if res is None:
        agg.held("replay", True)
    else:
        agg.violation(res[0], case, res[1])


def finish(m, tier):
    return {
        "exhaustive": True,
        "exhaustive_scope": "per tier table (N, max '+' items, max blank records, stride): "
        + str(tier_table(tier))
        + "; stride>1 rows sample '+' lists and are not exhaustive",
    }

"""C08 - a csvpath gives the same results alone, in a serial run and breadth-first.

Relational monitor: every member of a generated group is run standalone (the
reference) and through the three serial and three breadth-first CsvPaths methods,
in several orders of the group; per member the LineEvent trace, final variables,
printouts, validity, counters and collected lines are compared. The lines a
breadth-first run yields are compared with the per-line union / intersection of
the members' own decisions read from the LineEvents.
"""
import itertools
import os
import random

from vfy import lang

LEVEL = "exploration"
DECIDING = ["line_events", "member_runs_compared"]
MIN_DECIDED_RATIO = 0.8
FEATURES = ("assign", "agg", "control", "print", "fail", "onmatch")
RULE = (
    "random groups of 1-4 generated members (no cross-path signals, references or rewriting functions) x random files (a third with a repeated record, a fifth in another dialect) x all orders of "
    "the group (<= 6 orders sampled for 4 members) x {standalone, collect_paths, fast_forward_paths, next_paths, collect_by_line, "
    "fast_forward_by_line, next_by_line, next_by_line(if_all_agree)}. Non-trivial: the group has >= 2 members or a member matches a line; "
    "distinct = distinct (member skeletons in order, method)."
)
ASSUMPTIONS = ["member policy {collect, print} via the scratch config.ini", "collected lines of a CsvPaths run are read back from the member's data.csv spool"]


def plan(tier, seed):
    n = 16
    per = 16 if tier == "quick" else 200
    return [{"shard": i, "n": per, "timeout": 7200} for i in range(n)]


def make_case(seed, shard, i):
    r = random.Random(f"{seed}:C08:{shard}:{i}")
    n = r.choice([1, 2, 2, 3, 3, 4])
    members = []
    headerless = r.random() < 0.2
    for j in range(n):
        g = lang.Gen(r, FEATURES)
        prog = g.program(ncomp=r.randint(1, 4), scan=r.choice(lang.HEADERLESS_SCANS) if headerless else None)
        if headerless:
            prog["comps"] = [lang.index_headers(c) for c in prog["comps"]]
        prog["comment"] = lang.random_mode_comment(r, 0.4, allow=("return-mode", "unmatched-mode", "validation-mode", "run-mode", "print-mode"))
        members.append(lang.tolist(prog))
    rows = lang.data_rows(r, header_prob=0.0 if headerless else 0.85)
    if not any(len(x) for x in rows):
        rows.append(["1", "2", "x", "y"])
    if r.random() < 0.35:
        # a repeated record: the same cells on two lines are still two lines
        k = r.randrange(0 if headerless else 1, len(rows)) if len(rows) > (0 if headerless else 1) else None
        if k is not None and rows[k]:
            rows.insert(r.randint(k + 1, len(rows)), list(rows[k]))
    policy = r.choice([["collect", "print"], ["collect", "print"], ["collect", "stop", "fail", "print"], ["collect", "fail"]])
    dialect = None
    if r.random() < 0.2:
        # a file in another dialect (CsvPaths(delimiter=..., quotechar=...)), with cells that need quoting
        dialect = r.choice([{"delimiter": ";", "quotechar": "'"}, {"delimiter": ",", "quotechar": "'"}, {"delimiter": "|", "quotechar": '"'}])
        for row in rows[1:]:
            if len(row) > 3 and r.random() < 0.6:
                row[3] = r.choice(["x" + dialect["delimiter"] + "y", "it" + dialect["quotechar"] + "s", "q"])
    return {"members": members, "rows": rows, "policy": policy, "dialect": dialect}


def member_summary(c, events, lines, printed):
    from vfy import diffrun

    return {
        "trace": [(ev["pln"], ev["considered"], bool(ev["ret"]), diffrun.norm_vars(ev["vars"]), ev["valid"], ev["stopped"], ev["scan"], ev["match"]) for ev in events],
        "vars": diffrun.norm_vars({k: v for k, v in c.variables.items() if not str(k).startswith("_intx_")}),
        "valid": c.is_valid,
        "scan": c.scan_count,
        "match": c.match_count,
        "stopped": c.stopped,
        # where the member's own line monitor ended: the line it is on and how many lines it has seen
        "line_monitor": (c.line_monitor.physical_line_number, c.line_monitor.physical_line_count, c.line_monitor.data_line_count),
        "printed": list(printed),
        "lines": lines,
        "errors": sorted((e.line_count, str(e.error)[:100]) for e in (c.errors or [])),
    }


def standalone(prog, ident, path, agg, policy, kw=None):
    from vfy import cps, env, hooks

    text = cps.member_text(prog, ident=ident).replace("$[", f"${path}[", 1)
    c, cap = env.new_csvpath(list(policy), **(kw or {}))
    with hooks.recording(agg) as rec:
        try:
            lines = c.collect(text)
        except Exception as e:  # noqa
            return None, f"{type(e).__name__}: {str(e)[:200]}"
    return member_summary(c, rec.lines, [[str(x) for x in ln] for ln in lines], cap.lines), None


def run_group(order, members, method, kw, agg, dkw=None):
    """-> (per-member summaries in group order, yielded lines, per-line decisions, exception)"""
    from vfy import cps, env, hooks

    cs = env.new_csvpaths(**(dkw or {}))
    texts = [cps.member_text(members[j], ident=f"m{j}") for j in order]
    cs.paths_manager.add_named_paths(name="grp", paths=texts)
    with hooks.recording(agg) as rec:
        lines, exc = cps.run_method(cs, method, "grp", "data", **kw)
    if exc is not None:
        return None, None, None, f"{type(exc).__name__}: {str(exc)[:300]}"
    results = cs.results_manager.get_named_results("grp")
    out = {}
    by_id = {}
    for ev in rec.lines:
        by_id.setdefault(ev["id"], []).append(ev)
    for pos, r_ in enumerate(results):
        c = r_.csvpath
        j = order[pos]
        collected = None
        if method in ("collect_paths", "collect_by_line"):
            p = os.path.join(r_.instance_dir, "data.csv")
            collected = cps.read_csv(p) if os.path.exists(p) else []
        out[j] = member_summary(c, by_id.get(id(c), []), collected, r_.printouts)
    decisions = {}
    for ev in rec.lines:
        decisions.setdefault(ev["pln"], []).append(bool(ev["ret"]))
    return out, lines, decisions, None


CMP_FIELDS = ["trace", "vars", "valid", "scan", "match", "stopped", "line_monitor", "printed", "errors"]


def run_case(case, agg, r):
    from vfy import cps, env

    members, rows = case["members"], case["rows"]
    n = len(members)
    cps.reset_sandbox()
    policy = case.get("policy", ["collect", "print"])
    env.write_config(".", csvpath_policy=policy)
    dkw = case.get("dialect") or {}
    cs0 = env.new_csvpaths(**dkw)
    if dkw:
        import csv
        import io

        b = io.StringIO(newline="")
        wr = csv.writer(b, lineterminator="\n", **dkw)
        for row in rows:
            wr.writerow(row)
        cps.add_file(cs0, "data", data=b.getvalue().encode("utf-8"))
    else:
        cps.add_file(cs0, "data", rows)
    path = cs0.file_manager.get_named_file("data")
    refs = []
    for j, p in enumerate(members):
        s, err = standalone(p, f"m{j}", path, agg, policy, dkw)
        if err:
            return "undecided", None
        refs.append(s)
    orders = list(itertools.permutations(range(n)))
    if len(orders) > 6:
        orders = [orders[0]] + r.sample(orders[1:], 5)
    w0 = {"members": [cps.member_text(p, f"m{j}") for j, p in enumerate(members)], "rows": rows, "policy": policy}
    for order in orders:
        for method, kw in [(m, {}) for m in cps.METHODS] + [("next_by_line", {"if_all_agree": True})]:
            out, lines, decisions, exc = run_group(order, members, method, kw, agg, dkw)
            w = dict(w0, order=list(order), method=method, kw=kw, dialect=dkw)
            if exc:
                w["exc"] = exc
                return "exception", w
            if set(out) != set(range(n)):
                w["results_for"] = sorted(out)
                return "missing-member-result", w
            for j in range(n):
                agg.count("member_runs_compared")
                for f in CMP_FIELDS:
                    if out[j][f] != refs[j][f]:
                        w["member"] = j
                        w["field"] = f
                        w["standalone"] = str(refs[j][f])[:500]
                        w["in_group"] = str(out[j][f])[:500]
                        return f"{f}:{'serial' if method in cps.SERIAL else 'by_line'}", w
                if out[j]["lines"] is not None and out[j]["lines"] != refs[j]["lines"]:
                    w["member"] = j
                    w["standalone"] = refs[j]["lines"][:5]
                    w["in_group"] = out[j]["lines"][:5]
                    return f"collected-lines:{'serial' if method in cps.SERIAL else 'by_line'}", w
            # what the caller of the run gets
            if method == "next_paths":
                want = [ln for j in order for ln in refs[j]["lines"]]
                if [[str(x) for x in ln] for ln in lines] != want:
                    w["yielded"] = lines[:6]
                    w["want"] = want[:6]
                    return "next_paths-yield", w
            if method in ("next_by_line", "collect_by_line"):
                want = []
                for pln in sorted(decisions):
                    ds = decisions[pln]
                    keep = all(ds) if kw.get("if_all_agree") else any(ds)
                    if keep:
                        want.append(rows[pln])
                if [[str(x) for x in ln] for ln in lines] != want:
                    w["yielded"] = lines[:6]
                    w["want"] = want[:6]
                    return "by_line-yield-" + ("intersection" if kw.get("if_all_agree") else "union"), w
    case["_nontrivial"] = n >= 2 or any(ref["lines"] for ref in refs)
    return None, None


def run_one(case, agg, r):
    res, w = run_case(case, agg, r)
    shape = "||".join(lang.prog_shape(p) for p in case["members"])
    if res is None:
        agg.held(shape, case.pop("_nontrivial", True), sample={"members": [lang.program_text(p, "data") for p in case["members"]], "rows": case["rows"][:3]})
    elif res == "undecided":
        agg.skipped("a member raises standalone")
    else:
        agg.violation(res, case, w, shape)


def run_shard(spec, agg):
    from vfy import env, hooks

    hooks.install_line_hook()
    try:
        for i in range(spec["n"]):
            case = make_case(spec["seed"], spec["shard"], i)
            run_one(case, agg, random.Random(f"{spec['seed']}:{spec['shard']}:{i}:orders"))
    finally:
        env.write_config(".")


def replay(case, agg):
    from vfy import hooks

    hooks.install_line_hook()
    run_one(case, agg, random.Random("replay"))

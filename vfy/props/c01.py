"""C01 - returned lines are exactly the scanned lines that satisfy the match part.

Differential monitor: generated (program, file, logic-mode) cases run through the
real interpreter under the LineEvent hook and through the reference evaluator
(vfy.model); the per-line match decisions and the returned lines are compared.
"""
import random

from vfy import lang

LEVEL = "exploration"
DECIDING = ["line_events"]
MIN_DECIDED_RATIO = 0.5
FEATURES = ("assign", "or", "wide")
WHAT = ("match",)
KNOWN_SWITCHES = ("F1",)
RULE = (
    "random typed ASTs over the modelled function set (depth<=4, 1-6 components, AND and OR logic-mode) x random CSV files "
    "(numeric/text/empty/ragged/blank rows, multi-digit numbers); a case is decided when the reference evaluator defines every "
    "line's verdict (Unspecified / error-expected cases are dropped and counted). Non-trivial: at least one scanned line and at "
    "least one function or comparison in the program; distinct = distinct (program skeleton with literals erased, file kind vector)."
)
ASSUMPTIONS = [
    "reference evaluator vfy/model.py written from README/docs (Appendix A of DESIGN.md); corners the docs leave open are Unspecified and dropped",
    "known finding F1 is attributed only when re-running the model with lt/below/before emulated as <= reproduces the observed trace exactly",
]


def plan(tier, seed):
    n = 16
    per = 2500 if tier == "quick" else 50000
    return [{"shard": i, "n": per, "timeout": 3600} for i in range(n)]


def make_case(seed, prop, shard, i, features):
    r = random.Random(f"{seed}:{prop}:{shard}:{i}")
    g = lang.Gen(r, features)
    prog = g.program()
    rows = lang.data_rows(r)
    return lang.tolist(prog), rows


def file_kind(rows):
    out = []
    for row in rows:
        if not row:
            out.append("B")
        else:
            out.append("".join("e" if c == "" else ("n" if c.strip().lstrip("-").replace(".", "", 1).isdigit() else "t") for c in row))
    return "/".join(out)


def classify(info, prog):
    kind, w = info
    fns = sorted(set().union(*[lang.functions_used(c) for c in prog["comps"]]))
    return kind, fns


def run_one(prog, rows, agg, what=WHAT, known=KNOWN_SWITCHES):
    from vfy import diffrun

    status, info = diffrun.decide(prog, rows, agg, what, known)
    shape = lang.prog_shape(prog) + "|" + file_kind(rows)
    case = {"prog": prog, "rows": rows}
    if status == "held":
        nontriv = any(c[0] != "hdr" for c in prog["comps"]) and any(len(r) for r in rows)
        agg.held(shape, nontriv, sample=info)
        for fn in set().union(*[lang.functions_used(c) for c in prog["comps"]]):
            agg.count("fn:" + fn)
    elif status == "undecided":
        agg.skipped(info)
    elif status == "known":
        agg.known_finding(info[0], case, info[1], shape)
    else:
        kind, fns = classify(info, prog)
        agg.violation(kind, case, info[1], shape)


def run_shard(spec, agg, prop="C01", features=FEATURES, what=WHAT, known=KNOWN_SWITCHES):
    from vfy import hooks

    hooks.install_line_hook()
    for i in range(spec["n"]):
        prog, rows = make_case(spec["seed"], prop, spec["shard"], i, features)
        run_one(prog, rows, agg, what, known)


def replay(case, agg, what=WHAT, known=KNOWN_SWITCHES):
    from vfy import hooks

    hooks.install_line_hook()
    run_one(case["prog"], case["rows"], agg, what, known)


def finish(m, tier):
    c = m["counters"]
    return {"function_coverage": {k[3:]: v for k, v in sorted(c.items()) if k.startswith("fn:")}}

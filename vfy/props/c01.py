"""C01 - returned lines are exactly the scanned lines that satisfy the match part.

Differential monitor: generated (program, file, logic-mode) cases run through the
real interpreter under the LineEvent hook and through the reference evaluator
(vfy.model); the per-line match decisions and the returned lines are compared.
"""
import random

from vfy import lang

LEVEL = "exploration"
DECIDING = ["line_events"]
MIN_DECIDED_RATIO = 0.5
FEATURES = ("assign", "or", "wide")
WHAT = ("match",)
KNOWN_SWITCHES = ("F1",)
RULE = (
    "random typed ASTs over the modelled function set (depth<=4, 1-6 components, AND and OR logic-mode) x random CSV files "
    "(numeric/text/empty/ragged/blank rows, multi-digit numbers); a case is decided when the reference evaluator defines every "
    "line's verdict (Unspecified / error-expected cases are dropped and counted). Non-trivial: at least one scanned line and at "
    "least one function or comparison in the program; distinct = distinct (program skeleton with literals erased, file kind vector)."
)
ASSUMPTIONS = [
    "reference evaluator vfy/model.py written from README/docs (Appendix A of DESIGN.md); corners the docs leave open are Unspecified and dropped",
    "known finding F1 is attributed only when re-running the model with lt/below/before emulated as <= reproduces the observed trace exactly",
]


def plan(tier, seed):
    n = 16
    per = 2500 if tier == "quick" else 50000
    return [{"shard": i, "n": per, "timeout": 3600} for i in range(n)]


def make_case(seed, prop, shard, i, features):
    prog, rows = _make_case(seed, prop, shard, i, features)
    return _widen(prog, rows, random.Random(f"{seed}:{prop}:widen:{shard}:{i}"))


def _widen(prog, rows, r2):
    """two input classes drawn from a stream of their own (the generator's choices stay what they were)"""
    # (a) amounts with three decimals (weights, rates): exact in binary, so sums are compared exactly
    if r2.random() < 0.12:
        cand = [row for row in rows[1:] if len(row) >= 2]
        if cand:
            r2.choice(cand)[r2.choice([0, 1])] = r2.choice(["0.125", "1.375", "2.625"])
    # (b) an assignment from count(<bool>): unlike a bare count() it is not tied to the line matching; a later
    #     component may read the variable
    if r2.random() < 0.5:
        for k, c in enumerate(prog["comps"]):
            if c[0] == "assign" and c[4][0] == "fn" and c[4][1] == "count" and not c[4][2] and "onmatch" not in c[3]:
                cond = r2.choice([["eq", ["hdr", "2"], ["str", "x"]], ["fn", "empty", [["hdr", "3"]], []], ["fn", "gt", [["hdr", "0"], ["int", 2]], []]])
                prog["comps"][k] = ["assign", c[1], c[2], c[3], ["fn", "count", [cond], [f"cw{k}"]]]
                if c[2] is None and len(prog["comps"]) < 6 and r2.random() < 0.6:
                    prog["comps"].insert(r2.randint(k + 1, len(prog["comps"])), ["fn", "gt", [["var", c[1], None], ["int", 1]], []])
                break
    return prog, rows


def _make_case(seed, prop, shard, i, features):
    r = random.Random(f"{seed}:{prop}:{shard}:{i}")
    g = lang.Gen(r, features)
    if r.random() < 0.22:
        # stratum: no header row, the scan starts at line 0 and headers are addressed by index -
        # line 0 is an ordinary data line here (values first seen on it recur later)
        prog = g.program(scan=r.choice(["*", "*", "0*", "0-5", "0-3", "0+2-6"]))
        prog["comps"] = [lang.index_headers(c) for c in prog["comps"]]
        rows = lang.data_rows(r, header_prob=0.0)
        return lang.tolist(prog), rows
    prog = g.program()
    rows = lang.data_rows(r)
    return lang.tolist(prog), rows


def file_kind(rows):
    out = []
    for row in rows:
        if not row:
            out.append("B")
        else:
            out.append("".join("e" if c == "" else ("n" if c.strip().lstrip("-").replace(".", "", 1).isdigit() else "t") for c in row))
    return "/".join(out)


def classify(info, prog):
    kind, w = info
    fns = sorted(set().union(*[lang.functions_used(c) for c in prog["comps"]]))
    return kind, fns


def run_one(prog, rows, agg, what=WHAT, known=KNOWN_SWITCHES):
    from vfy import diffrun

    status, info = diffrun.decide(prog, rows, agg, what, known)
    shape = lang.prog_shape(prog) + "|" + file_kind(rows)
    case = {"prog": prog, "rows": rows}
    if status == "held":
        nontriv = any(c[0] != "hdr" for c in prog["comps"]) and info["lines_scanned"] > 0
        if "vars" in what:
            nontriv = nontriv and info["variables_written"] > 0
        agg.held(shape, nontriv, sample=info if nontriv else None)
        for fn in set().union(*[lang.functions_used(c) for c in prog["comps"]]):
            agg.count("fn:" + fn)
    elif status == "undecided":
        agg.skipped(info)
    elif status == "known":
        agg.known_finding(info[0], case, info[1], shape)
    else:
        kind, fns = classify(info, prog)
        agg.violation(kind, case, info[1], shape)


def run_shard(spec, agg, prop="C01", features=FEATURES, what=WHAT, known=KNOWN_SWITCHES):
    from vfy import hooks

    hooks.install_line_hook()
    for i in range(spec["n"]):
        prog, rows = make_case(spec["seed"], prop, spec["shard"], i, features)
        run_one(prog, rows, agg, what, known)


def replay(case, agg, what=WHAT, known=KNOWN_SWITCHES):
    from vfy import hooks

    hooks.install_line_hook()
    if "sweep" in case:
        if isinstance(case["sweep"], list):
            run_sweep(agg, "AND", only=case["sweep"])
            run_sweep(agg, "OR", only=case["sweep"])
        return
    run_one(case["prog"], case["rows"], agg, what, known)


def finish(m, tier):
    c = m["counters"]
    return {"function_coverage": {k[3:]: v for k, v in sorted(c.items()) if k.startswith("fn:")}}


# ------------------------------------------------------------------ systematic operand-pair sweep
POOL = ["0", "1", "2", "9", "10", "11", "100", "3.5", "10.0", "-1", " 4 ", "", "x", "abc"]
CMP2 = ["gt", "lt", "above", "below", "after", "before", "equals"]
CMP3 = ["between", "inside", "from_to", "range", "beyond", "outside"]


def sweep_rows():
    rows = [["a", "b", "c"]]
    for a in POOL:
        for b in POOL:
            rows.append([a, b, "5"])
    for a in POOL:
        rows.append([a])  # b and c absent
    return rows


def sweep_programs():
    H = lambda n: ["hdr", n]
    I = lambda n: ["int", n]
    F = lambda name, args: ["fn", name, args, []]
    progs = []
    for f in CMP2:
        progs.append(F(f, [H("a"), H("b")]))
        for t in (0, 2, 10):
            progs.append(F(f, [H("a"), I(t)]))
            progs.append(F(f, [I(t), H("b")]))
        progs.append(F(f, [F("add", [H("a"), I(0)]), H("b")]))
        progs.append(F(f, [H("a"), F("multiply", [H("b"), I(1)])]))
        progs.append(F(f, [F("int", [H("a")]), F("float", [H("b")])]))
    for f in CMP3:
        progs.append(F(f, [H("a"), H("b"), H("c")]))
        progs.append(F(f, [H("c"), H("a"), H("b")]))
        progs.append(F(f, [H("a"), I(2), I(10)]))
        progs.append(F(f, [H("a"), I(10), I(2)]))
        progs.append(F(f, [F("add", [H("a"), I(0)]), H("b"), I(10)]))
    for rhs in (I(0), I(2), I(10), ["str", "x"], ["str", "10"], H("b")):
        progs.append(["eq", H("a"), rhs])
        progs.append(["fn", "not", [["eq", H("a"), rhs]], []])
    progs.append(["eq", F("add", [H("a"), I(0)]), I(10)])
    progs.append(["eq", F("int", [H("a")]), H("b")])
    for f in ("empty", "exists"):
        progs.append(F(f, [H("b")]))
    progs.append(F("all", [H("a"), H("b")]))
    progs.append(F("missing", [H("a"), H("b")]))
    progs.append(F("in", [H("a"), ["str", "1|10|x"]]))
    progs.append(F("in", [H("b"), ["str", "2| 9 |abc"]]))
    progs.append(H("b"))
    return progs


def run_sweep(agg, mode="AND", only=None):
    """every comparison form over every ordered pair of operand classes; lines are independent, so each line
    is decided on its own (a line the docs leave open is skipped, the others are still compared)"""
    from vfy import diffrun, model

    rows = sweep_rows()
    for comp in ([only] if only is not None else sweep_programs()):
        prog = {"scan": "1*", "comps": [comp], "mode": mode}
        m = model.Model(prog, rows)
        mtrace = m.run(lenient=True)
        real = diffrun.real_run(prog, rows, agg, fname="sweep.csv")
        evs = real["rec"].lines
        text = real["text"]
        if real["exc"] or len(evs) != len(mtrace):
            agg.violation("sweep-run", {"sweep": lang.tolist(comp)}, {"program": text, "exc": real["exc"], "events": len(evs)}, "sweep|" + lang.skeleton(comp))
            continue
        err_lines = {e[0] for e in real["errors"]}
        bad = None
        decided = 0
        for ev, mt in zip(evs, mtrace):
            if mt["matched"] is None:
                continue
            decided += 1
            if ev["pln"] in err_lines:
                bad = {"kind": "unexpected-error", "line": ev["line"], "errors": [e for e in real["errors"] if e[0] == ev["pln"]][:2]}
                break
            if bool(ev["ret"]) != mt["matched"]:
                f1 = comp[0] == "fn" and comp[1] in ("lt", "below", "before")
                if f1 and ev["ret"] and not mt["matched"]:
                    # known finding F1: equal operands
                    m2 = model.Model(prog, rows, emulate=("F1",))
                    mt2 = [t for t in m2.run(lenient=True) if t["pln"] == mt["pln"]][0]
                    if mt2["matched"] is True:
                        agg.count("sweep_f1_lines")
                        continue
                bad = {"kind": "match", "line": ev["line"], "real": ev["ret"], "model": mt["matched"]}
                break
        shape = "sweep|" + lang.skeleton(comp) + "|" + mode
        if bad:
            agg.violation("sweep-" + bad["kind"], {"sweep": lang.tolist(comp)}, dict(bad, program=text), shape)
        else:
            agg.held(shape, True, sample={"program": text, "lines_decided": decided, "lines": len(mtrace)})
            agg.count("sweep_lines_decided", decided)
    if agg.counters.get("sweep_f1_lines"):
        agg.known_finding("F1", {"sweep": "lt/below/before on equal operands"}, {"lines": agg.counters["sweep_f1_lines"]}, "sweep|F1")


_orig_run_shard = run_shard


def run_shard(spec, agg, prop="C01", features=FEATURES, what=WHAT, known=KNOWN_SWITCHES):  # noqa: F811
    _orig_run_shard(spec, agg, prop, features, what, known)
    if prop == "C01" and spec["shard"] in (0, 1):
        run_sweep(agg, "AND" if spec["shard"] == 0 else "OR")

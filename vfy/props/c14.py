"""C14 - assignment qualifiers decide the vote and the write per the documented table.

Exhaustive: 256 qualifier subsets x all 3-sequences of y over {absent,1,2,3}
(+ true/false when neither increase nor decrease) x {rest matches, does not},
each a real run of `[@x.<Q> = #1 yes()|no()]` over a 3-line file. The value of x
after each line and the line's match are read from the LineEvent hook (not from a
trailing push(@x): the onmatch look-ahead would evaluate such an observer early).
"""
import itertools
import os

LEVEL = "exploration"
DECIDING = ["line_events"]
RULE = (
    "full product qualifier-subset x value-sequence x rest-matches (quick, thorough), and again - for the 128 subsets without onmatch - with an "
    "onmatch-qualified sibling assignment and the rest of the line placed before the assignment under test; thorough adds tracking-keyed "
    "variables (@x.k.<Q>), the qualifier order reversed, and 4-line sequences (1/6 sample). Non-trivial: at least one "
    "line has a value for y; distinct = distinct (qualifiers, sequence, rest, variant) tuples."
)
ASSUMPTIONS = [
    "oracle transcribed from the property statement and docs/assignment.md; where the doc's priority list and the code's "
    "evaluation order give different votes (latch/onchange engaged together with a notnone/increase/decrease block) both votes are admissible (A2); the write decision is always checked",
    "y values are single-digit strings so string and numeric order agree",
]

Q = ["onmatch", "latch", "onchange", "increase", "decrease", "notnone", "asbool", "nocontrib"]


def asbool(v):
    if v is None:
        return False
    s = str(v).strip().lower()
    if s == "false":
        return False
    if s == "true":
        return True
    return bool(v)


def decide(quals, x, y, rest):
    """-> (x_after, set of admissible votes). AND mode: positive vote True."""
    q = set(quals)
    if "onmatch" in q and not rest:
        votes = {False}
        xa = x
    else:
        block = (
            ("notnone" in q and y is None)
            or ("increase" in q and (not y or (x is not None and x >= y)))
            or ("decrease" in q and (not y or (x is not None and x <= y)))
        )
        lo = "latch" in q or "onchange" in q
        same = x == y
        latched = "latch" in q and x is not None
        # write decision (unambiguous)
        if same:
            xa = x
        elif latched:
            xa = x
        elif block:
            xa = x
        else:
            xa = y
        # vote, order 1: latch/onchange looked at first (blocks only reached when a write is attempted)
        if lo:
            if same:
                v1 = False if "onchange" in q else True
            elif latched:
                v1 = True
            else:
                v1 = not block
        else:
            v1 = not block
        # vote, order 2: docs' priority list (notnone, increase/decrease before latch/onchange)
        if block:
            v2 = False
        elif lo and same:
            v2 = False if "onchange" in q else True
        else:
            v2 = True
        votes = {v1, v2}
    if "asbool" in q:
        votes = {(asbool(y) if v else v) for v in votes}
    if "nocontrib" in q:
        votes = {True}
    return xa, votes


def model(quals, ys, rest):
    x = None
    out = []
    for y in ys:
        x, votes = decide(quals, x, y, rest)
        out.append((x, {v and rest for v in votes}))
    return out


def cases(tier):
    subsets = [s for r in range(0, 9) for s in itertools.combinations(Q, r)]
    for quals in subsets:
        vals = [None, "1", "2", "3"]
        if "increase" not in quals and "decrease" not in quals:
            vals = vals + ["true", "false"]
        for ys in itertools.product(vals, repeat=3):
            for rest in (True, False):
                yield {"quals": list(quals), "ys": list(ys), "rest": rest, "variant": "plain"}
    # the same table with an onmatch-qualified sibling assignment and the rest of the line placed BEFORE the assignment
    # under test (qualifier sets without onmatch: two onmatch components on a line are known finding F9b's ground)
    for quals in subsets:
        if "onmatch" in quals:
            continue
        for ys in itertools.product([None, "1", "2", "3"], repeat=3):
            for rest in (True, False):
                yield {"quals": list(quals), "ys": list(ys), "rest": rest, "variant": "after-onmatch-sibling"}
    if tier == "thorough":
        n = 0
        for quals in subsets:
            vals = [None, "1", "2", "3"]
            for ys in itertools.product(vals, repeat=3):
                for rest in (True, False):
                    yield {"quals": list(quals), "ys": list(ys), "rest": rest, "variant": "tracking"}
                    yield {"quals": list(reversed(quals)), "ys": list(ys), "rest": rest, "variant": "reversed"}
            for ys in itertools.product(vals, repeat=4):
                n += 1
                if n % 6 == 0:
                    yield {"quals": list(quals), "ys": list(ys), "rest": n % 4 != 0, "variant": "plain"}


def plan(tier, seed):
    n = 16 if tier == "quick" else 32
    return [{"shard": i, "nshards": n, "timeout": 1800} for i in range(n)]


def run_case(case, agg):
    from vfy import env, hooks

    quals, ys, rest, variant = case["quals"], case["ys"], case["rest"], case["variant"]
    fname = "q_" + "_".join("n" if y is None else y for y in ys) + ".csv"
    if not os.path.exists(fname):
        with open(fname, "w") as f:
            for i, y in enumerate(ys):
                f.write(f"{i}\n" if y is None else f"{i},{y}\n")
    name = "@x.k" if variant == "tracking" else "@x"
    qs = "".join("." + q for q in quals)
    prog = f'${fname}[*][ {name}{qs} = #1 {"yes()" if rest else "no()"} ]'
    if variant == "after-onmatch-sibling":
        prog = f'${fname}[*][ @h.onmatch = #0 {"yes()" if rest else "no()"} {name}{qs} = #1 ]'
    c, cap = env.new_csvpath(["collect", "print"])
    with hooks.recording(agg) as rec:
        try:
            lines = c.collect(prog)
        except Exception as e:  # noqa
            return "exception", {"program": prog, "exc": repr(e)[:300]}
    if c.errors:
        return "unexpected-error", {"program": prog, "errors": [str(e.error)[:200] for e in c.errors[:2]]}
    obs = []
    for ev in rec.lines:
        v = ev["vars"].get("x")
        if variant == "tracking":
            v = v.get("k") if isinstance(v, dict) else v
        obs.append((v, ev["ret"]))
    exp = model(quals, ys, rest)
    if len(obs) != len(exp):
        return "trace-length", {"program": prog, "observed": obs}
    for i, ((ox, om), (ex, ems)) in enumerate(zip(obs, exp)):
        if ox != ex:
            return "write", {"program": prog, "ys": ys, "line": i, "observed_x": ox, "expected_x": ex, "observed": obs, "expected": [(a, sorted(b)) for a, b in exp]}
        if om not in ems:
            return "vote", {"program": prog, "ys": ys, "line": i, "observed_match": om, "admissible": sorted(ems), "observed": obs, "expected": [(a, sorted(b)) for a, b in exp]}
    returned = [ln[0] for ln in lines]
    want = [str(i) for i, (_, m) in enumerate(obs) if m]
    if returned != want:
        return "returned-lines", {"program": prog, "returned": returned, "want": want}
    return None


def run_shard(spec, agg):
    from vfy import hooks

    hooks.install_line_hook()
    for i, case in enumerate(cases(spec["tier"])):
        if i % spec["nshards"] != spec["shard"]:
            continue
        res = run_case(case, agg)
        shape = f"{case['quals']}|{case['ys']}|{case['rest']}|{case['variant']}"
        nontriv = any(y is not None for y in case["ys"])
        if res is None:
            agg.held(shape, nontriv, sample=case)
        else:
            agg.violation(res[0] + ":" + "+".join(sorted(case["quals"])[:8]), case, res[1], shape)


def replay(case, agg):
    from vfy import hooks

    hooks.install_line_hook()
    res = run_case(case, agg)
    if res is None:
        agg.held("replay", True)
    else:
        agg.violation(res[0], case, res[1])


def finish(m, tier):
    return {"exhaustive": True, "exhaustive_scope": "256 qualifier subsets x 3-line value sequences x rest in {matches, does not} (the property's quantifier); thorough extras are sampled where stated in rule"}

"""C17 - what runs is what was written: parsing is unambiguous and layout-insensitive.

Monitors: (1) a hook on LarkParser.parse counting `_ambig` nodes in every tree
it returns; (2) round trip: the component tree built by the real transformer
(read back from Matcher.expressions) must equal the generating AST; (3) six
layouts of the same AST (whitespace, newlines, ~comments~ between components,
outer comment) must give the same tree, and for runnable programs the same
LineEvent trace.
"""
import random
import re

from vfy import lang

LEVEL = "exploration"
DECIDING = ["parse_calls", "trees_compared"]
MIN_DECIDED_RATIO = 0.8
RULE = (
    "random ASTs over every function name found in the factory (arity/argument kinds learned per function by probing the real "
    "validator with candidate shapes; functions that accept none of the shapes are listed as skipped), headers (plain, numeric, quoted), "
    "variables with tracking/qualifiers, terms (strings, signed ints, decimals, regexes), references, ==, ->, assignments, nesting <= 4; "
    "each AST is rendered in 6 layouts (minimal separators, single spaces, newlines, random whitespace runs, ~comments~ between "
    "components, outer comment without mode settings). Non-trivial: the AST contains a function or an operator; distinct = distinct AST skeletons."
)
ASSUMPTIONS = [
    "layout varies only between match components; one separator is kept where two adjacent components would fuse into a single token",
    "the arity table is learned from the code under test (a function none of the candidate shapes fits is skipped, not guessed)",
]

# ------------------------------------------------------------------ vocabulary


def function_names():
    import inspect
    from csvpath.matching.functions import function_factory

    src = inspect.getsource(function_factory.FunctionFactory.get_function)
    names = set(re.findall(r'name == "([a-z_]+)"', src))
    for grp in re.findall(r"name in \[(.*?)\]", src, flags=re.S):
        names |= set(re.findall(r'"([a-z_]+)"', grp))
    return sorted(names)


SHAPES = [
    [],
    [("hdr", "a")],
    [("var", "v", None)],
    [("str", "abc")],
    [("int", 2)],
    [("fn", "yes", [], [])],
    [("hdr", "a"), ("hdr", "b")],
    [("hdr", "a"), ("int", 2)],
    [("str", "s"), ("hdr", "a")],
    [("str", "s"), ("int", 1)],
    [("hdr", "a"), ("str", "x|y")],
    [("fn", "yes", [], []), ("fn", "no", [], [])],
    [("hdr", "a"), ("int", 1), ("int", 9)],
    [("hdr", "a"), ("hdr", "b"), ("hdr", "c")],
    [("eq", ("hdr", "a"), ("int", 1))],
    [("hdr", "a"), ("regex", "/a.b/")],
    [("regex", "/a.b/"), ("hdr", "a")],
    [("str", "s"), ("str", "t")],
]

SKIP_FUNCS = {"import", "jinja", "debug", "log", "brief_stack_trace", "vote_stack", "do_when_stack", "random", "shuffle", "now", "thisyear", "thismonth", "today", "print_queue", "file_fingerprint", "line_fingerprint", "store_line_fingerprint", "count_bytes", "header_table", "row_table", "var_table", "run_table", "reset_headers", "collect", "replace", "append"}


def txt(n):
    if n[0] == "regex":
        return n[1]
    if n[0] == "ref":
        return "$" + n[1]
    if n[0] == "fn":
        return lang.qn(n[1], n[3]) + "(" + ", ".join(txt(a) for a in n[2]) + ")"
    if n[0] == "eq":
        return txt(n[1]) + " == " + txt(n[2])
    if n[0] == "when":
        return txt(n[1]) + " -> " + txt(n[2])
    if n[0] == "assign":
        return "@" + n[1] + ("." + n[2] if n[2] else "") + "".join("." + q for q in n[3]) + " = " + txt(n[4])
    if n[0] == "hdr":
        quals = n[2] if len(n) > 2 and n[2] else []
        base = f'#"{n[1]}"' if (" " in n[1] or "." in n[1]) else "#" + n[1]
        return base + "".join("." + q for q in quals)
    return lang.txt(n)


def parse_components(match_text):
    """-> (list of extracted trees, csvpath) using the real parser/transformer"""
    from vfy import env

    c, _ = env.new_csvpath(["collect"])
    m = c.parse(f"$nofile.csv[*]{match_text}", disposably=True)
    # every build of a function in this process (also while learning arities) is compared with its first build
    for fname, sig in build_signatures(m):
        _BUILD_COUNT["n"] += 1
        first = _BUILT.setdefault(fname, sig)
        if first != sig:
            _BUILD_MISMATCH.append({"match_part": match_text, "function": fname, "first_build": first, "this_build": sig})
    return m, c


def extract(node):
    from csvpath.matching.productions import Equality, Header, Variable, Term, Reference, Expression
    from csvpath.matching.functions.function import Function

    if isinstance(node, Expression):
        return extract(node.children[0])
    if isinstance(node, Function):
        args = []
        if node.children:
            ch = node.children[0]
            if isinstance(ch, Equality) and ch.op == ",":
                args = [extract(x) for x in ch.children]
            else:
                args = [extract(ch)]
        return ["fn", node.name, args, list(node.qualifiers or [])]
    if isinstance(node, Equality):
        if node.op == "==":
            return ["eq", extract(node.left), extract(node.right)]
        if node.op == "->":
            return ["when", extract(node.left), extract(node.right)]
        if node.op == "=":
            v = node.left
            return ["assign", v.name, list(v.qualifiers or []), extract(node.right)]
        return ["list", [extract(x) for x in node.children]]
    if isinstance(node, Header):
        return ["hdr", node.name, list(node.qualifiers or [])]
    if isinstance(node, Variable):
        return ["var", node.name, list(node.qualifiers or [])]
    if isinstance(node, Reference):
        return ["ref", node.qualified_name]
    if isinstance(node, Term):
        return ["term", node.value]
    return ["?", type(node).__name__]


def canon(n):
    """generating AST -> the same normal form as extract()"""
    k = n[0]
    if k == "fn":
        return ["fn", n[1], [canon(a) for a in n[2]], list(n[3])]
    if k == "eq":
        return ["eq", canon(n[1]), canon(n[2])]
    if k == "when":
        return ["when", canon(n[1]), canon(n[2])]
    if k == "assign":
        return ["assign", n[1], ([n[2]] if n[2] else []) + list(n[3]), canon(n[4])]
    if k == "hdr":
        return ["hdr", n[1], list(n[2]) if len(n) > 2 and n[2] else []]
    if k == "var":
        return ["var", n[1], [n[2]] if n[2] else []]
    if k == "ref":
        return ["ref", n[1]]
    if k in ("int", "flt", "str", "regex"):
        return ["term", n[1]]
    if k == "print":
        return ["fn", "print", [["term", n[1]]], list(n[2])]
    raise AssertionError(n)


# ------------------------------------------------------------------ arity learning
_TABLE = {}


def learn_table(agg):
    if _TABLE:
        return _TABLE
    for name in function_names():
        if name in SKIP_FUNCS:
            continue
        ok = []
        for shape in SHAPES:
            node = ("fn", name, list(shape), [])
            try:
                m, c = parse_components("[" + txt(node) + "]")
                if not c.errors and m is not None and len(m.expressions) == 1:
                    ok.append(shape)
            except Exception:  # noqa
                pass
        if ok:
            _TABLE[name] = ok
        else:
            agg.note("no candidate shape fits function: " + name)
    agg.count("functions_in_table", len(_TABLE))
    return _TABLE


# ------------------------------------------------------------------ AST generator (all functions)
def gen_term(r):
    k = r.random()
    if k < 0.3:
        # (also integers a 64-bit float cannot hold, and decimals with many digits: literal values are what was written)
        return ("int", r.choice([0, 1, 7, 42, -3, -10, 1000, 9007199254740993, 12345678901234567, -9223372036854775807, 4111111111111111]))
    if k < 0.45:
        return ("flt", r.choice([0.5, 3.25, -2.5, 10.0, 0.1, 1234567.125, -0.001]))
    if k < 0.85:
        return ("str", r.choice(["abc", "a b", "x|y|z", "", " pad ", "it's", "1,2", "#h", "@v", "a == b", "x -> y", "(q)", "a~b", "~hi~ there", "x ~ y", "[br", "q]", "C:\\temp\\new.csv", "\\theta", "a\\b"]))
    return ("regex", r.choice(["/a.b/", "/^[0-9]+$/", "/x|y/", "/\\d{2}/", "/^~[a-z]+~$/", "/q~r/"]))


def gen_leaf(r):
    k = r.random()
    if k < 0.35:
        quals = [] if r.random() < 0.8 else [r.choice(["asbool", "nocontrib", "notnone"])]
        return ("hdr", r.choice(["a", "b", "c", "0", "2", "last name", "zip_code", "Col-1", "unit.price", "v1.2 total"]), quals)
    if k < 0.6:
        return ("var", r.choice(["v", "x1", "my_var", "cnt"]), r.choice([None, None, "k", "asbool"]))
    if k < 0.9:
        return gen_term(r)
    return ("ref", r.choice(["grp.variables.x", "grp.headers.a", "other.variables.total.k"]))


def fill(r, shape_item, d, table):
    """an argument of the same kind as the learned shape item, possibly replaced by a nested function"""
    k = shape_item[0]
    if k == "fn" or (d > 0 and k in ("hdr", "var") and r.random() < 0.35):
        return gen_fn(r, d - 1, table, value_like=(k != "fn"))
    if k == "hdr":
        return ("hdr", r.choice(["a", "b", "c", "1", "last name", "Col-1", "unit.price"]), [])
    if k == "var":
        return ("var", r.choice(["v", "x1", "cnt"]), r.choice([None, "k"]))
    if k == "int":
        return ("int", r.choice([0, 1, 2, 5, -1, 12]))
    if k == "str":
        return ("str", r.choice(["abc", "a b", "x|y", "s", "q.r", "a~b", "~t~"]))
    if k == "regex":
        return ("regex", r.choice(["/a.b/", "/^x+$/"]))
    if k == "eq":
        return ("eq", ("hdr", r.choice(["a", "b"]), []), gen_term(r))
    return shape_item


VALUE_FUNCS = ["add", "subtract", "concat", "lower", "upper", "length", "int", "count_lines", "line_number", "mod", "round", "substring", "count", "sum", "max", "min", "peek", "pop", "stack"]
VOTE_FUNCS = ["yes", "no", "not", "and", "or", "gt", "lt", "equals", "between", "in", "empty", "exists", "all", "starts_with", "first", "every", "above", "below"]


def gen_fn(r, d, table, value_like=False, name=None):
    if name is None:
        pool = [f for f in (VALUE_FUNCS if value_like else list(table)) if f in table]
        name = r.choice(pool)
    shape = r.choice(table[name])
    args = [fill(r, it, d, table) for it in shape]
    quals = []
    x = r.random()
    if x < 0.12:
        quals.append(r.choice(["onmatch", "once", "onchange", "nocontrib", "asbool", "notnone", "distinct"]))
    elif x < 0.2:
        quals.append(r.choice(["mine", "total", "k2", "ByCity", "TotalAmount", "ALL"]))  # (names are taken as written)
        if r.random() < 0.4:
            quals.append("onmatch")
    return ("fn", name, args, quals)


def gen_component(r, table):
    k = r.random()
    if k < 0.45:
        return gen_fn(r, 3, table)
    if k < 0.6:
        left = r.choice([gen_leaf_left(r), gen_fn(r, 2, table, value_like=True)])
        right = r.choice([gen_term(r), gen_leaf_left(r), gen_fn(r, 2, table, value_like=True), ("ref", "grp.variables.x")])
        return ("eq", left, right)
    if k < 0.75:
        val = r.choice([gen_term(r), gen_leaf_left(r), gen_fn(r, 2, table, value_like=True), ("ref", "grp.variables.x")])
        quals = [] if r.random() < 0.6 else r.sample(["onmatch", "latch", "onchange", "notnone", "increase", "asbool", "nocontrib"], r.randint(1, 3))
        return ("assign", r.choice(["v", "x1", "total", "MyVar"]), r.choice([None, None, "k", "Key"]), quals, val)
    if k < 0.9:
        left = r.choice([gen_fn(r, 2, table), ("eq", gen_leaf_left(r), gen_term(r)), gen_leaf_left(r)])
        action = r.choice([gen_fn(r, 2, table), ("assign", "w", None, [], gen_term(r))])
        return ("when", left, action)
    return gen_leaf_left(r)


def gen_leaf_left(r):
    if r.random() < 0.6:
        return ("hdr", r.choice(["a", "b", "c", "0", "last name", "Col-1", "unit.price", "is.asbool"]), [])
    return ("var", r.choice(["v", "x1", "cnt"]), r.choice([None, "k"]))


# ------------------------------------------------------------------ layouts
IDCH = set("abcdefghijklmnopqrstuvwxyzABCDEFGHIJKLMNOPQRSTUVWXYZ0123456789_.-")


def join_minimal(parts):
    out = ""
    for p in parts:
        if out and (out[-1] in IDCH or p[0] in IDCH or out[-1] == '"' and p[0] == '"'):
            # keep one separator where the two components would otherwise fuse into one token
            if not (out[-1] in ')"/' and p[0] in "#@"):
                out += " "
        out += p
    return out


def layouts(r, comps_text):
    ws = lambda: "".join(r.choice([" ", "  ", "\t", "\n", " \n  "]) for _ in range(r.randint(1, 3)))
    cm = lambda: r.choice(["~ note ~", "~ a comment with words: and colon ~", "~~", "~ #a == 1 yes() ~", "~ multi\nline ~", "~ see ticket [1234] ~", "~ [todo] check ~", "~ was: push(\"s\", @v[0]) ~"])
    outs = []
    outs.append(("single-space", "[" + " ".join(comps_text) + "]"))
    outs.append(("minimal", "[" + join_minimal(comps_text) + "]"))
    outs.append(("newlines", "[\n" + "\n".join(comps_text) + "\n]"))
    outs.append(("random-ws", "[" + ws() + "".join(c + ws() for c in comps_text) + "]"))
    outs.append(("comments", "[" + cm() + " " + " ".join(c + " " + cm() for c in comps_text) + "]"))
    return outs


# ------------------------------------------------------------------ checks
_AMBIG = {"n": 0, "calls": 0}


def install_parse_hook():
    from csvpath.matching.lark_parser import LarkParser

    if getattr(LarkParser, "_vfy", False):
        return
    orig = LarkParser.parse

    def parse(self, matchpart):
        tree = orig(self, matchpart)
        _AMBIG["calls"] += 1
        try:
            _AMBIG["n"] += sum(1 for t in tree.iter_subtrees() if t.data == "_ambig")
        except Exception:  # noqa
            pass
        return tree

    LarkParser.parse = parse
    LarkParser._vfy = True


_BUILD_MISMATCH = []
_BUILD_COUNT = {"n": 0}
_BUILT = {}  # function name -> (class, construction-time configuration) of its first build in this process
_COMMON_STATE = {"name", "qualified_name", "qualifier", "value", "match", "_id", "checked"}


def build_signatures(m):
    """(function name, class name, primitive construction-time attributes beyond the ones every function has) per
    Function node of a freshly parsed matcher: what the factory made of the written name"""
    from csvpath.matching.functions.function import Function

    def walk(n):
        yield n
        for ch in getattr(n, "children", None) or []:
            yield from walk(ch)

    for e in m.expressions:
        for n in walk(e[0]):
            if isinstance(n, Function):
                extra = sorted((k, v) for k, v in vars(n).items() if k not in _COMMON_STATE and not k.startswith("_") and isinstance(v, (str, int, float, bool)))
                yield n.name, (type(n).__module__ + "." + type(n).__name__, extra)


def check_ast(comps, r, agg):
    want = [canon(c) for c in comps]
    comps_text = [txt(c) for c in comps]
    ref_tree = None
    for lname, mtxt in layouts(r, comps_text):
        _AMBIG["n"] = 0
        try:
            m, c = parse_components(mtxt)
        except Exception as e:  # noqa
            return "parse-exception:" + lname, {"match_part": mtxt, "exc": f"{type(e).__name__}: {str(e)[:300]}"}
        agg.count("parse_calls")
        if _AMBIG["n"]:
            return "ambiguous-parse", {"match_part": mtxt, "ambig_nodes": _AMBIG["n"]}
        agg.count("function_builds_compared", _BUILD_COUNT["n"])
        _BUILD_COUNT["n"] = 0
        if _BUILD_MISMATCH:
            w_ = _BUILD_MISMATCH[0]
            del _BUILD_MISMATCH[:]
            return "function-built-differently-on-a-later-parse", w_
        got = [extract(e[0]) for e in m.expressions]
        agg.count("trees_compared")
        if got != want:
            for i, (g, w_) in enumerate(zip(got + [None] * 9, want + [None] * 9)):
                if g != w_:
                    break
            return "tree-differs-from-source:" + lname, {"match_part": mtxt, "component": i, "built": g, "written": w_}
    return None, None


def check_run(seed, shard, i, agg):
    """layout-insensitivity of results for runnable (modelled-subset) programs"""
    from vfy import diffrun, env, hooks

    r = random.Random(f"{seed}:C17run:{shard}:{i}")
    g = lang.Gen(r, ("assign", "agg", "control", "print", "onmatch"))
    prog = lang.tolist(g.program())
    rows = lang.data_rows(r)
    with open("lay.csv", "w", newline="") as f:
        f.write(lang.rows_to_text(rows))
    comps_text = [lang.txt(c) for c in prog["comps"]]
    traces = []
    outer = r.choice(["~ a plain remark ~ ", "~ owner: me description: layout test ~ ", "~ reviewed: yes\n ticket: T-12 ~\n"])  # (an id/name would legitimately show up in messages)
    preset = random.Random(f"{seed}:C17preset:{shard}:{i}").choice([None, None, None, ("OR", True), ("AND", False), ("collect_when_not_matched", True)])
    if preset is not None:
        agg.count("run_cases_with_api_set_mode")
    for lname, mtxt in layouts(r, comps_text):
        for oc in ("", outer) if lname == "single-space" else ("",):
            ptxt = f"{oc}$lay.csv[{prog['scan']}]{mtxt}"
            c, cap = env.new_csvpath(["collect", "print"])
            if preset is not None:
                setattr(c, preset[0], preset[1])  # a mode chosen through the API before the text is handed in
            with hooks.recording(agg) as rec:
                try:
                    lines = c.collect(ptxt)
                    exc = None
                except Exception as e:  # noqa
                    lines, exc = None, f"{type(e).__name__}: {str(e)[:200]}"
            tr = {
                "lines": lines,
                "exc": exc,
                "trace": [(ev["pln"], ev["considered"], bool(ev["ret"]), diffrun.norm_vars(ev["vars"]), ev["valid"], ev["stopped"]) for ev in rec.lines],
                "printed": cap.lines,
                "errors": [(e.line_count, str(e.error)[:120]) for e in (c.errors or [])],
            }
            traces.append((lname + ("+outer" if oc else ""), ptxt, tr))
    base = traces[0]
    for lname, ptxt, tr in traces[1:]:
        for k in tr:
            if tr[k] != base[2][k]:
                return "layout-changes-run:" + lname.split("+")[0], {"layout_a": base[1], "layout_b": ptxt, "set_through_api_before_the_run": preset, "field": k, "a": str(base[2][k])[:400], "b": str(tr[k])[:400], "rows": rows}, prog
    return None, None, prog


def plan(tier, seed):
    n = 16
    per = 700 if tier == "quick" else 12000
    return [{"shard": i, "n": per, "nrun": 120 if tier == "quick" else 2500, "timeout": 3600} for i in range(n)]


def make_ast(seed, shard, i, table):
    r = random.Random(f"{seed}:C17:{shard}:{i}")
    comps = [gen_component(r, table) for _ in range(r.randint(1, 5))]
    return comps, r


def run_shard(spec, agg):
    from vfy import hooks

    hooks.install_line_hook()
    install_parse_hook()
    table = learn_table(agg)
    names = sorted(table)
    for i in range(spec["n"]):
        comps, r = make_ast(spec["seed"], spec["shard"], i, table)
        if i < len(names) * 2:
            # make sure every function name appears, at top level, at least twice per shard
            comps[0] = gen_fn(r, 2, table, name=names[i % len(names)])
        comps = lang.tolist(comps)
        res, w = check_ast(comps, r, agg)
        shape = " ".join(skel(c) for c in comps)
        if res is None:
            agg.held(shape, any(c[0] != "hdr" and c[0] != "var" for c in comps), sample={"match_part": "[" + " ".join(txt(c) for c in comps) + "]"})
            for c in comps:
                for fn in fn_names(c):
                    agg.count("fn:" + fn)
        else:
            agg.violation(res, {"comps": comps, "seed": [spec["seed"], spec["shard"], i]}, w, shape)
    for i in range(spec["nrun"]):
        res, w, prog = check_run(spec["seed"], spec["shard"], i, agg)
        shape = "RUN|" + lang.prog_shape(prog)
        if res is None:
            agg.held(shape, True)
            agg.count("run_layout_cases")
        else:
            agg.violation(res, {"run": [spec["seed"], spec["shard"], i]}, w, shape)


def skel(n):
    k = n[0]
    if k == "fn":
        return n[1] + "".join("." + q for q in n[3]) + "(" + ",".join(skel(a) for a in n[2]) + ")"
    if k in ("eq", "when"):
        return skel(n[1]) + ("==" if k == "eq" else "->") + skel(n[2])
    if k == "assign":
        return "@" + ("t" if n[2] else "") + "".join("." + q for q in n[3]) + "=" + skel(n[4])
    if k == "hdr":
        return "#" + ("q" if " " in n[1] else ("i" if n[1].isdigit() else "n"))
    if k == "var":
        return "@" + ("t" if n[2] else "")
    return {"int": "I", "flt": "F", "str": "S", "regex": "X", "ref": "$"}.get(k, "?")


def fn_names(n, acc=None):
    acc = acc if acc is not None else set()
    if n[0] == "fn":
        acc.add(n[1])
        for a in n[2]:
            fn_names(a, acc)
    elif n[0] in ("eq", "when"):
        fn_names(n[1], acc)
        fn_names(n[2], acc)
    elif n[0] == "assign":
        fn_names(n[4], acc)
    return acc


def replay(case, agg):
    from vfy import hooks

    hooks.install_line_hook()
    install_parse_hook()
    table = learn_table(agg)
    if "run" in case:
        res, w, prog = check_run(*case["run"], agg)
    else:
        r = random.Random(f"{case['seed'][0]}:C17:{case['seed'][1]}:{case['seed'][2]}:layouts")
        res, w = check_ast(case["comps"], r, agg)
    if res is None:
        agg.held("replay", True)
    else:
        agg.violation(res, case, w)


def finish(m, tier):
    c = m["counters"]
    fns = {k[3:]: v for k, v in sorted(c.items()) if k.startswith("fn:")}
    return {"functions_covered": len(fns), "function_coverage": fns}

"""C19 - results depend only on the csvpath, the file and the configuration.

Relational monitor across processes: every job of a generated sequence (2-6 jobs
run one after another in one process through CsvPaths().csvpath(), i.e. with the
line-count/header cache) is compared with its twin - the same job run first in a
fresh process with an empty cache - with a warm-cache run in a third process
(cache populated by the sequence process), with a direct CsvPath() run, and with
a repeat. A labelled sub-scenario rewrites a file at the same path between jobs.
"""
import hashlib
import json
import os
import random
import shutil
import subprocess
import sys

from vfy import lang

LEVEL = "exploration"
DECIDING = ["jobs_compared", "fresh_processes"]
MIN_DECIDED_RATIO = 0.8
FEATURES = ("assign", "agg", "control", "print", "fail", "rewrite")
RULE = (
    "random sequences of 2-6 (csvpath, file) jobs from the program generators (time/random functions excluded; 30% extend their lines, 30% print the headers, 10% count duplicate lines, 10% read a stack before first pushing to it) over files whose header cells "
    "contain quotes, delimiters, spaces and newlines; each job's result tuple (lines, variables, printouts, errors, validity, counters, headers, "
    "line count) in-sequence vs fresh-process cold-cache twin vs fresh-process warm-cache vs direct CsvPath() vs repeat; plus the sub-scenario "
    "'same path, new bytes' (different size, or the same size 0.4 s later within one clock second). Non-trivial: a sequence of >= 2 jobs; distinct = distinct (program skeletons, header shapes)."
)
ASSUMPTIONS = ["files are content-addressed (<sha1>.csv) except in the labelled same-path sub-scenarios", "the sandbox file system keeps nanosecond mtimes (os.utime ns=); on a coarser one the same-second rewrite is indistinguishable by design and the sub-scenario is skipped and counted", "each fresh process costs ~0.4 s; sequences are therefore few but each is compared five ways"]

HOSTILE_HEADERS = ['; name', ', qty ', 'a |', '` t', '"q', 'a,b', ' sp ', 'two\nlines', 'semi;colon', "it's", '""', 'x|y', 'tab\there', 'é', '`tick`', '', 'c d']


def plan(tier, seed):
    n = 16
    per = 10 if tier == "quick" else 180
    return [{"shard": i, "n": per, "timeout": 7200} for i in range(n)]


def gen_file(r):
    rows = lang.data_rows(r, header_prob=1.0)
    hdr = list(rows[0])
    for k in range(len(hdr)):
        if r.random() < 0.4:
            hdr[k] = r.choice(HOSTILE_HEADERS)
    rows[0] = hdr
    if r.random() < 0.1 and len(rows) > 1 and rows[-1]:
        # one very large cell (beyond the csv module's default field size limit, which is process-wide state)
        rows[-1] = list(rows[-1])
        rows[-1][-1] = "L" * 140000
    text = lang.rows_to_text(rows)
    name = hashlib.sha1(text.encode()).hexdigest()[:16] + ".csv"
    return name, text, rows


def gen_job(r, files):
    g = lang.Gen(r, FEATURES)
    prog = lang.tolist(g.program(ncomp=r.randint(1, 4)))
    # refer to columns by index: header names are hostile on purpose
    txt = lang.program_text(prog, "@@FILE@@")
    for i, h in enumerate(["a", "b", "c", "d"]):
        txt = txt.replace(f"#{h}", f"#{i}").replace(f"$.headers.{h}", f"$.headers.{i}")
    name = r.choice(files)[0]
    x = r.random()
    if x < 0.3:
        # a line-extending job: the appended header must stay this job's own business
        txt = txt[:-1] + ' append("extra_h", line_number())]'
    elif x < 0.6:
        txt = txt[:-1] + ' @hc = count_headers() print("$.csvpath.headers")]'
    elif x < 0.7:
        # duplicate-line bookkeeping: its variables are keyed by a fingerprint of the line
        txt = txt[:-1] + ' @dd = count_dups()]'
    elif x < 0.8:
        # a stack that is read before its first push and pushed to afterwards: what an unpushed stack reads as is
        # this job's own business too
        txt = txt[:-1] + ' @ps = peek_size("late") push("late", #0)]'
    return {"text": txt.replace("@@FILE@@", name), "file": name, "shape": lang.prog_shape(prog)}


_HASHSEED = {"n": 0}


def run_process(jobs, cwd, agg):
    spec = {"cwd": cwd, "jobs": jobs}
    sp = os.path.join(os.getcwd(), "jobspec.json")
    with open(sp, "w") as f:
        json.dump(spec, f)
    # every fresh process gets its own hash seed (the workers themselves are pinned for reproducibility): nothing a
    # run leaves behind may depend on it
    _HASHSEED["n"] += 1
    envv = dict(os.environ, PYTHONHASHSEED=str(1000 + _HASHSEED["n"]))
    p = subprocess.run([sys.executable, "-m", "vfy.jobrunner", sp], capture_output=True, text=True, timeout=300, env=envv)
    agg.count("fresh_processes")
    if p.returncode != 0:
        raise RuntimeError("jobrunner failed: " + p.stderr[-600:])
    return json.loads(p.stdout)


def first_diff(a, b):
    for k in a:
        if a[k] != b.get(k):
            return k, a[k], b.get(k)
    return None


def run_case(case, agg):
    base = os.path.abspath("c19work")
    shutil.rmtree(base, ignore_errors=True)
    seqdir = os.path.join(base, "seq")
    os.makedirs(seqdir)
    for name, text, _ in case["files"]:
        for d in (seqdir,):
            with open(os.path.join(d, name), "w", newline="") as f:
                f.write(text)
    jobs = case["jobs"]
    seq_jobs = [{"text": j["text"], "mode": "csvpaths", "new_instance": (i % 2 == 1)} for i, j in enumerate(jobs)]
    seq = run_process(seq_jobs + seq_jobs[:1], seqdir, agg)  # the last entry repeats job 0 at the end of the sequence
    w = {"jobs": [j["text"] for j in jobs], "files": {n: (t if len(t) < 5000 else t[:300] + f"... ({len(t)} characters)") for n, t, _ in case["files"]}}
    for i, j in enumerate(jobs):
        # cold twin: fresh process, empty cache, this job first
        tdir = os.path.join(base, f"twin{i}")
        os.makedirs(tdir)
        for name, text, _ in case["files"]:
            with open(os.path.join(tdir, name), "w", newline="") as f:
                f.write(text)
        twin = run_process([{"text": j["text"], "mode": "csvpaths"}, {"text": j["text"], "mode": "direct"}, {"text": j["text"], "mode": "csvpaths"}], tdir, agg)
        agg.count("jobs_compared")
        for label, got in (("in-sequence", seq[i]), ("direct-CsvPath", twin[1]), ("repeat-same-process", twin[2])):
            d = first_diff(twin[0], got)
            if d:
                w.update({"job": i, "compared": f"fresh-process twin vs {label}", "field": d[0], "twin": str(d[1])[:400], "other": str(d[2])[:400]})
                return f"{label}:{d[0]}", w
        shutil.rmtree(tdir, ignore_errors=True)
    d = first_diff(seq[0], seq[len(jobs)])
    if d:
        w.update({"job": 0, "compared": "first run vs repeat at the end of the sequence", "field": d[0], "first": str(d[1])[:400], "repeat": str(d[2])[:400]})
        return f"repeat-in-sequence:{d[0]}", w
    # warm cache: a new process on the cache the sequence process left behind
    warm = run_process([{"text": j["text"], "mode": "csvpaths"} for j in jobs], seqdir, agg)
    for i in range(len(jobs)):
        d = first_diff(seq[i], warm[i])
        if d:
            w.update({"job": i, "compared": "cold (sequence process) vs warm cache (later process)", "field": d[0], "cold": str(d[1])[:400], "warm": str(d[2])[:400]})
            return f"warm-cache:{d[0]}", w
    # ---- labelled sub-scenario: same path, new bytes
    if case.get("rewrite"):
        name, text, _ = case["files"][0]
        newtext = case["rewrite"]
        j0 = {"text": f"${name}[*][yes()]", "mode": "csvpaths"}
        sdir = os.path.join(base, "samepath")
        os.makedirs(sdir)
        with open(os.path.join(sdir, name), "w", newline="") as f:
            f.write(text)
        run_process([j0], sdir, agg)
        with open(os.path.join(sdir, name), "w", newline="") as f:
            f.write(newtext)
        os.utime(os.path.join(sdir, name), (1893456000, 1893456000))
        stale = run_process([j0], sdir, agg)[0]
        fdir = os.path.join(base, "samepath-fresh")
        os.makedirs(fdir)
        with open(os.path.join(fdir, name), "w", newline="") as f:
            f.write(newtext)
        fresh = run_process([j0], fdir, agg)[0]
        d = first_diff(fresh, stale)
        if d:
            w.update({"compared": "new bytes at a path whose old content is in the cache vs the same bytes with an empty cache", "field": d[0], "cold": str(d[1])[:300], "warm": str(d[2])[:300]})
            return f"KNOWNCLASS-same-path-new-bytes:{d[0]}", w
    # ---- labelled sub-scenario: same path, same size, modified within the same second (only the sub-second mtime differs)
    if case.get("rewrite_same_size"):
        name, text, _ = case["files"][0]
        newtext = case["rewrite_same_size"]
        j0 = {"text": f"${name}[*][yes()]", "mode": "csvpaths"}
        sdir = os.path.join(base, "samesize")
        os.makedirs(sdir)
        t0 = 1893456000 * 10**9
        with open(os.path.join(sdir, name), "w", newline="") as f:
            f.write(text)
        os.utime(os.path.join(sdir, name), ns=(t0 + 1000, t0 + 1000))
        run_process([j0], sdir, agg)
        with open(os.path.join(sdir, name), "w", newline="") as f:
            f.write(newtext)
        os.utime(os.path.join(sdir, name), ns=(t0 + 400_000_000, t0 + 400_000_000))
        if os.stat(os.path.join(sdir, name)).st_mtime_ns != t0 + 400_000_000:
            # a file system that does not keep sub-second mtimes: the two versions are indistinguishable by design
            agg.count("same_size_rewrite_skipped_coarse_mtime")
            shutil.rmtree(base, ignore_errors=True)
            return None, None
        stale = run_process([j0], sdir, agg)[0]
        fdir = os.path.join(base, "samesize-fresh")
        os.makedirs(fdir)
        with open(os.path.join(fdir, name), "w", newline="") as f:
            f.write(newtext)
        fresh = run_process([j0], fdir, agg)[0]
        agg.count("same_size_same_second_rewrites")
        d = first_diff(fresh, stale)
        if d:
            w.update({"compared": "same-size bytes written 0.4 s later at a path whose old content is in the cache vs the same bytes with an empty cache", "field": d[0], "cold": str(d[1])[:300], "warm": str(d[2])[:300]})
            return f"same-path-same-size-same-second:{d[0]}", w
    shutil.rmtree(base, ignore_errors=True)
    return None, None


def make_case(seed, shard, i):
    r = random.Random(f"{seed}:C19:{shard}:{i}")
    files = [gen_file(r) for _ in range(r.randint(1, 3))]
    pool = [gen_job(r, files) for _ in range(r.randint(1, 3))]
    jobs = []
    for _ in range(r.randint(2, 6 if i % 3 == 0 else 3)):
        j = dict(r.choice(pool))
        if r.random() < 0.5:
            # the same csvpath against another file of the sequence
            other = r.choice(files)[0]
            j["text"] = j["text"].replace(j["file"], other)
            j["file"] = other
        jobs.append(j)
    case = {"files": files, "jobs": jobs}
    if i % 2 == 0:
        rows = [list(x) for x in files[0][2]]
        rows = rows[: max(1, len(rows) // 2)] if r.random() < 0.5 else rows + [["9", "9", "more", "rows"]] * 3
        rows[0] = [h + "X" for h in rows[0]]
        case["rewrite"] = lang.rows_to_text(rows)
    else:
        rows = [list(x) for x in files[0][2]]
        rows[0] = [(h[:-1] + ("Z" if h[-1] != "Z" else "Y")) if h and h[-1].isalnum() else h for h in rows[0]]
        t = lang.rows_to_text(rows)
        if t != files[0][1] and len(t.encode()) == len(files[0][1].encode()):
            case["rewrite_same_size"] = t
    return case


def run_one(case, agg):
    res, w = run_case(case, agg)
    hs = "/".join("".join("q" if any(ch in h for ch in '",;|\n\t`') else ("s" if h != h.strip() or " " in h else "a") for h in f[2][0]) for f in case["files"])
    shape = "||".join(j["shape"] for j in case["jobs"]) + "|" + hs
    if res is None:
        agg.held(shape, len(case["jobs"]) >= 2, sample={"jobs": [j["text"] for j in case["jobs"]][:3], "headers": [f[2][0] for f in case["files"]]})
    elif res.startswith("KNOWNCLASS-same-path-new-bytes"):
        agg.known_finding("F12", case, w, shape)
    else:
        agg.violation(res, case, w, shape)


def run_shard(spec, agg):
    for i in range(spec["n"]):
        run_one(make_case(spec["seed"], spec["shard"], i), agg)


def replay(case, agg):
    run_one(case, agg)

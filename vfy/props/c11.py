"""C11 - the named-files area is a versioned, content-addressed, immutable store.

History + executable model: operation sequences over {add(name, source file,
content), mutate a source file, remove(name), new CsvPaths instance} are run
against the real FileManager and replayed against a 40-line abstract model
(name -> list of (source file name, sha256)); after every operation the store
on disk is compared with the model and with hash snapshots of every version
ever stored. Histories are enumerated exhaustively up to renaming of names /
sources / contents (first-use order), longer ones at random.
"""
import hashlib
import json
import os
import random

LEVEL = "exploration"
DECIDING = ["operations", "store_checks"]
MIN_DECIDED_RATIO = 0.9
RULE = (
    "operations: add(name in 2 - the second one hierarchical, 'people/2024', in a third of the histories -, source file in 2, content in 3), mutate(source, content), remove(existing name), add of a missing source file under an existing name (fails), new-instance; all histories "
    "up to renaming (canonical first-use order) of length <= 4 (quick) / <= 5 (thorough) plus random histories of length 8-25. Non-trivial: "
    "a history with at least two registrations; distinct = distinct canonical histories."
)
ASSUMPTIONS = ["sha256 via hashlib is the content address", "remove() is only issued for names that currently exist (removing an unknown name is not specified)"]

CONTENTS = [b"a,b\n1,2\n", b"a,b\n1,2\n3,4\n", b"x;y\n9;8\n"]
NAMES = ["orders", "people"]
SOURCES = ["first.csv", "second.2024-03.csv"]  # (a source file name with more than one dot)


def sha(b):
    return hashlib.sha256(b).hexdigest()


class Model:
    def __init__(self):
        self.names = {}  # name -> list of (source, sha)
        self.stored = {}  # name -> {(source, sha)} every version ever registered (until removed)
        self.sources = {}

    def apply(self, op):
        k = op[0]
        if k == "add":
            _, n, s, c = op
            self.sources[s] = c
            h = sha(CONTENTS[c])
            man = self.names.setdefault(n, [])
            st = self.stored.setdefault(n, set())
            if not man or man[-1] != (s, h):
                man.append((s, h))
            st.add((s, h))
        elif k == "mutate":
            self.sources[op[1]] = op[2]
        elif k == "remove":
            self.names.pop(op[1], None)
            self.stored.pop(op[1], None)
        elif k == "addfail":
            self.sources.pop(op[2], None)  # the source file is gone; nothing is registered, nothing may change


def enumerate_histories(L):
    """canonical histories of length exactly L"""

    def rec(prefix, kn, ks, kc, existing):
        if len(prefix) == L:
            yield list(prefix)
            return
        ops = []
        for n in range(min(kn + 1, 2)):
            for s in range(min(ks + 1, 2)):
                for c in range(min(kc + 1, 3)):
                    ops.append(("add", n, s, c))
        for s in range(ks):
            for c in range(min(kc + 1, 3)):
                ops.append(("mutate", s, c))
        for n in sorted(existing):
            ops.append(("remove", n))
            for s in range(ks):
                ops.append(("addfail", n, s))
        if prefix:
            ops.append(("new",))
        for op in ops:
            kn2, ks2, kc2, ex2 = kn, ks, kc, set(existing)
            if op[0] == "add":
                kn2, ks2, kc2 = max(kn, op[1] + 1), max(ks, op[2] + 1), max(kc, op[3] + 1)
                ex2.add(op[1])
            elif op[0] == "mutate":
                kc2 = max(kc, op[2] + 1)
            elif op[0] == "remove":
                ex2.discard(op[1])
            prefix.append(op)
            yield from rec(prefix, kn2, ks2, kc2, ex2)
            prefix.pop()

    yield from rec([], 0, 0, 0, set())


def random_history(r):
    h = []
    existing = set()
    for _ in range(r.randint(8, 25)):
        x = r.random()
        if x < 0.55 or not h:
            op = ("add", r.randrange(2), r.randrange(2), r.randrange(3))
            existing.add(op[1])
        elif x < 0.75:
            op = ("mutate", r.randrange(2), r.randrange(3))
        elif x < 0.83 and existing:
            n = r.choice(sorted(existing))
            op = ("remove", n)
            existing.discard(n)
        elif x < 0.9 and existing:
            op = ("addfail", r.choice(sorted(existing)), r.randrange(2))
        else:
            op = ("new",)
        h.append(op)
    return h


def plan(tier, seed):
    n = 16
    return [{"shard": i, "nshards": n, "timeout": 7200} for i in range(n)]


def all_histories(tier, seed):
    L = 4 if tier == "quick" else 5
    yield from enumerate_histories(L)
    r = random.Random(f"{seed}:C11")
    for _ in range(150 if tier == "quick" else 3000):
        yield random_history(r)


def check_store(cs, model, hashes, w, NAMES=NAMES):
    fm = cs.file_manager
    base = os.path.join("inputs", "named_files")
    # (a name with a path separator lives more than one directory deep: the listing shows its first segment)
    # of it, and keeps showing it when the name is removed - the listing is compared for the flat names only)
    nested_tops = {x.split("/")[0] for x in NAMES if "/" in x}
    want_names = sorted(NAMES[n] for n in model.names if "/" not in NAMES[n])
    got_names = sorted(x for x in fm.named_file_names if x not in nested_tops) if os.path.isdir(base) else []
    for n, name in enumerate(NAMES):
        if "/" in name and n not in model.names:
            try:
                p_ = fm.get_named_file(name)
            except Exception:  # noqa
                p_ = None
            if p_ and os.path.exists(p_):
                w["name"] = name
                w["get_named_file"] = p_
                return "removed-name-still-resolves"
    if got_names != want_names:
        w["named_file_names"] = got_names
        w["model_names"] = want_names
        return "names"
    for n, man in model.names.items():
        name = NAMES[n]
        src, h = man[-1]
        p = fm.get_named_file(name)
        if p is None or not os.path.exists(p):
            w["get_named_file"] = p
            return "current-version-missing"
        with open(p, "rb") as f:
            data = f.read()
        if sha(data) != h:
            w["name"] = name
            w["file"] = p
            return "current-version-has-wrong-bytes"
        bn = os.path.basename(p)
        if not (bn.startswith(h + ".") and bn.endswith(".csv")):
            w["file"] = p
            w["sha256"] = h
            return "file-name-is-not-the-hash"
        if os.path.basename(os.path.dirname(p)) != SOURCES[src]:
            w["file"] = p
            w["source"] = SOURCES[src]
            return "version-under-wrong-source-directory"
        mp = os.path.join(base, name, "manifest.json")
        with open(mp) as f:
            mj = json.load(f)
        if len(mj) != len(man):
            w["name"] = name
            w["manifest_entries"] = len(mj)
            w["version_changing_registrations"] = len(man)
            return "manifest-length"
        got_seq = [(os.path.basename(e["file_home"]), e["fingerprint"]) for e in mj]
        if got_seq != [(SOURCES[s_], h_) for s_, h_ in man]:
            w["manifest"] = got_seq
            w["model"] = [(SOURCES[s_], h_) for s_, h_ in man]
            return "manifest-entries"
        if fm.get_fingerprint_for_name(name) != h:
            return "fingerprint-for-name"
        # every version ever registered is still there, unmodified
        for s_, h_ in model.stored[n]:
            vdir = os.path.join(base, name, SOURCES[s_])
            found = [f_ for f_ in (os.listdir(vdir) if os.path.isdir(vdir) else []) if f_.startswith(h_ + ".")]
            vp = os.path.join(vdir, found[0] if found else h_ + ".csv")
            if not found:
                w["version"] = vp
                return "stored-version-disappeared"
            with open(vp, "rb") as f:
                if sha(f.read()) != h_:
                    w["version"] = vp
                    return "stored-version-modified"
    return None


def run_history(h, agg):
    from vfy import cps, env

    cps.reset_sandbox()
    # (every other history spells the configured named-files directory in a way os.path.normpath would change)
    dotted = sum(len(op) for op in h) % 2 == 1
    env.write_config(".", files_dir="./inputs/named_files" if dotted else "inputs/named_files")
    cs = env.new_csvpaths()
    observer = env.new_csvpaths()  # long-lived, only ever reads: stale in-memory state would show here
    model = Model()
    # (a third of the histories use a hierarchical second name, e.g. grouped by period)
    NAMES = ["orders", "people/2024"] if (len(h) + sum(len(op) for op in h) // 2) % 3 == 0 else ["orders", "people"]
    w = {"history": [list(op) for op in h], "names": NAMES, "configured_named_files_dir": "./inputs/named_files" if dotted else "inputs/named_files"}
    for i, op in enumerate(h):
        w["step"] = i
        agg.count("operations")
        try:
            if op[0] == "add":
                _, n, s, c = op
                with open(os.path.join("srcfiles", SOURCES[s]), "wb") as f:
                    f.write(CONTENTS[c])
                cs.file_manager.add_named_file(name=NAMES[n], path=os.path.join("srcfiles", SOURCES[s]))
            elif op[0] == "mutate":
                with open(os.path.join("srcfiles", SOURCES[op[1]]), "wb") as f:
                    f.write(CONTENTS[op[2]])
            elif op[0] == "remove":
                cs.file_manager.remove_named_file(NAMES[op[1]])
            elif op[0] == "addfail":
                # a registration that fails: the source file does not exist (any more)
                sp = os.path.join("srcfiles", SOURCES[op[2]])
                if os.path.exists(sp):
                    os.unlink(sp)
                try:
                    cs.file_manager.add_named_file(name=NAMES[op[1]], path=sp)
                    w["failed_add_did_not_raise"] = True
                except Exception:  # noqa
                    pass
            else:
                cs = env.new_csvpaths()
        except Exception as e:  # noqa
            w["exc"] = f"{type(e).__name__}: {str(e)[:200]}"
            return "operation-raises", w
        model.apply(op)
        for who, inst in (("same instance", cs), ("fresh instance", env.new_csvpaths()), ("long-lived reader instance", observer)):
            agg.count("store_checks")
            try:
                pr = check_store(inst, model, None, w, NAMES)
            except Exception as e:  # noqa
                w["exc"] = f"{type(e).__name__}: {str(e)[:200]}"
                pr = "store-api-raises"
            if pr:
                w["seen_by"] = who
                return pr, w
    return None, None


def run_one(h, agg):
    res, w = run_history(h, agg)
    shape = "/".join("-".join(map(str, op)) for op in h)
    if res is None:
        agg.held(shape, sum(1 for op in h if op[0] == "add") >= 2, sample={"history": [list(op) for op in h]})
    else:
        agg.violation(res, {"history": [list(op) for op in h]}, w, shape)


def run_shard(spec, agg):
    from vfy import env

    try:
        for i, h in enumerate(all_histories(spec["tier"], spec["seed"])):
            if i % spec["nshards"] != spec["shard"]:
                continue
            run_one(h, agg)
    finally:
        env.write_config(".")


def replay(case, agg):
    run_one([tuple(op) for op in case["history"]], agg)


def finish(m, tier):
    return {"exhaustive": True, "exhaustive_scope": f"all canonical histories of length {4 if tier == 'quick' else 5} (every shorter history is a prefix and is checked after each operation); longer histories random"}

"""Per-shard aggregation of case outcomes (worker side) and merging (parent side)."""
import hashlib
import json
from collections import Counter

import os

MAX_VIOL_PER_SHARD = 40
MAX_SAMPLES = 3
# self-validation only (./selftest, ./seedtest against a scratch copy): stop at the first violation instead of
# finishing the workload; never honoured for a run against /repo itself
FAIL_FAST = os.environ.get("VERIF_FAIL_FAST") == "1" and os.environ.get("VERIF_REPO", "/repo").rstrip("/") != "/repo"


class FailFast(BaseException):
    pass


def h(s):
    return hashlib.sha1(s.encode("utf-8", "replace")).hexdigest()[:12]


class Agg:
    def __init__(self, prop, shard):
        self.prop = prop
        self.shard = shard
        self.counters = Counter()
        self.shapes = set()
        self.samples = []
        self.violations = []
        self.known = {}
        self.known_counts = Counter()
        self.notes = []

    # ---- outcomes
    def count(self, name, n=1):
        self.counters[name] += n

    def held(self, shape, nontrivial=True, sample=None):
        self.counters["evaluations"] += 1
        self.counters["held"] += 1
        if nontrivial:
            self.counters["nontrivial"] += 1
            self.shapes.add(h(shape))
        if sample is not None and len(self.samples) < MAX_SAMPLES:
            self.samples.append(sample)

    def skipped(self, reason):
        """generated but not decided (oracle has no defined answer); counted, never a verdict"""
        self.counters["evaluations"] += 1
        self.counters["undecided"] += 1
        self.counters["undecided:" + reason] += 1

    def violation(self, cls, case, detail, shape=None):
        """cls: short mechanism-level class; case: replayable spec; detail: witness"""
        self.counters["evaluations"] += 1
        self.counters["violations"] += 1
        self.counters["viol:" + cls] += 1
        if shape is not None:
            self.shapes.add(h(shape))
        if sum(1 for v in self.violations if v["cls"] == cls) < 3 and len(self.violations) < MAX_VIOL_PER_SHARD:
            self.violations.append({"cls": cls, "case": case, "detail": detail})
        if FAIL_FAST:
            raise FailFast()

    def known_finding(self, kf, case, detail, shape=None):
        self.counters["evaluations"] += 1
        self.counters["known_hits"] += 1
        self.known_counts[kf] += 1
        if shape is not None:
            self.shapes.add(h(shape))
        if kf not in self.known:
            self.known[kf] = {"case": case, "detail": detail}

    def note(self, s):
        if len(self.notes) < 20:
            self.notes.append(s)

    def dump(self, path):
        with open(path, "w") as f:
            json.dump(
                {
                    "prop": self.prop,
                    "shard": self.shard,
                    "counters": dict(self.counters),
                    "shapes": sorted(self.shapes),
                    "samples": self.samples,
                    "violations": self.violations,
                    "known": self.known,
                    "known_counts": dict(self.known_counts),
                    "notes": self.notes,
                },
                f,
                default=str,
            )


def merge(paths):
    out = {
        "counters": Counter(),
        "shapes": set(),
        "samples": [],
        "violations": [],
        "known": {},
        "known_counts": Counter(),
        "notes": [],
        "shards": 0,
    }
    for p in paths:
        with open(p) as f:
            d = json.load(f)
        out["shards"] += 1
        out["counters"].update(d["counters"])
        out["shapes"].update(d["shapes"])
        if len(out["samples"]) < 6:
            out["samples"].extend(d["samples"][: 6 - len(out["samples"])])
        out["violations"].extend(d["violations"])
        for k, v in d["known"].items():
            out["known"].setdefault(k, v)
        out["known_counts"].update(d["known_counts"])
        out["notes"].extend(d["notes"])
    return out

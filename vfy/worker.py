"""Worker entry: python -m vfy.worker <PROP> shard|replay <spec.json> <out.json>"""
import importlib
import json
import os
import sys
import traceback


def main():
    prop, mode, specp, outp = sys.argv[1:5]
    from vfy import env, agg

    env.require_guard()
    with open(specp) as f:
        spec = json.load(f)
    env.setup_scratch(os.getcwd())
    env.install_lark_memo()
    mod = importlib.import_module(f"vfy.props.{prop.lower()}")
    a = agg.Agg(prop, spec.get("shard", 0))
    # keep the code under test off our stdout (print-mode default re-adds StdOutPrinter)
    real_out = sys.stdout
    sys.stdout = open(os.devnull, "w")
    try:
        if mode == "replay":
            mod.replay(spec["case"], a)
        else:
            mod.run_shard(spec, a)
    except agg.FailFast:
        pass
    except Exception:
        sys.stdout = real_out
        traceback.print_exc()
        sys.exit(3)
    sys.stdout = real_out
    a.dump(outp)


if __name__ == "__main__":
    main()

"""Consistency checker between a finished CsvPaths run in memory and its archive on disk
(used by C09, and by C18 for the members that finished before an abort)."""
import json
import math
import os

from . import cps

RESULT_FILES = ["data.csv", "meta.json", "unmatched.csv", "printouts.txt", "errors.json", "vars.json"]


def jnorm(v):
    if isinstance(v, float):
        return "nan" if math.isnan(v) else v
    if isinstance(v, (list, tuple)):
        return [jnorm(x) for x in v]
    if isinstance(v, dict):
        return {str(k): jnorm(x) for k, x in v.items()}
    return v


def parse_printouts(text):
    """-> {name: text block}"""
    out = {}
    cur = None
    for line in text.split("\n"):
        if line.startswith("---- PRINTOUT: "):
            cur = line[len("---- PRINTOUT: "):]
            out[cur] = []
        elif cur is not None:
            out[cur].append(line)
    return {k: "\n".join(v) for k, v in out.items()}


def check_member(result, mdir, collected_expected, method):
    """collected_expected: list of lines the member collected according to the LineEvents, or None when the
    method does not collect. -> (problem, detail) or None"""
    c = result.csvpath
    for f in ("meta.json", "vars.json", "errors.json", "manifest.json"):
        p = os.path.join(mdir, f)
        if not os.path.exists(p):
            return "missing-" + f, {"dir": mdir}
        try:
            cps.read_json(p)
        except ValueError as e:
            return "unreadable-" + f, {"dir": mdir, "exc": str(e)[:100]}
    vars_disk = jnorm(cps.read_json(os.path.join(mdir, "vars.json")))
    vars_mem = jnorm(json.loads(json.dumps(c.variables, default=str)))
    if vars_disk != vars_mem:
        return "vars.json", {"disk": str(vars_disk)[:400], "memory": str(vars_mem)[:400]}
    errs_disk = cps.read_json(os.path.join(mdir, "errors.json"))
    errs_mem = [(e.line_count, f"{e.error}") for e in result.errors]
    if [(e.get("line_count"), e.get("error")) for e in errs_disk] != errs_mem:
        return "errors.json", {"disk": [(e.get("line_count"), e.get("error")) for e in errs_disk][:4], "memory": errs_mem[:4]}
    po_mem = {k: v for k, v in result.get_printouts().items() if v}
    pp = os.path.join(mdir, "printouts.txt")
    if po_mem:
        if not os.path.exists(pp):
            return "printouts.txt-missing", {"memory": {k: v[:2] for k, v in po_mem.items()}}
        with open(pp) as f:
            disk = parse_printouts(f.read())
        want = {k: "\n".join(f"{x}" for x in v) + "\n" for k, v in po_mem.items()}
        # the serializer ends every entry with a newline; compare entry text sequences per named printer
        if {k: v.rstrip("\n") for k, v in disk.items()} != {k: v.rstrip("\n") for k, v in want.items()}:
            return "printouts.txt", {"disk": {k: v[:200] for k, v in disk.items()}, "memory": {k: v[:200] for k, v in want.items()}}
    elif os.path.exists(pp):
        with open(pp) as f:
            if f.read().strip():
                return "printouts.txt-unexpected", {}
    dp = os.path.join(mdir, "data.csv")
    if collected_expected is not None:
        disk = cps.read_csv(dp) if os.path.exists(dp) else []
        want = [[str(x) for x in ln] for ln in collected_expected]
        if disk != want:
            return "data.csv", {"disk": disk[:5], "collected": want[:5], "n_disk": len(disk), "n_collected": len(want)}
    elif os.path.exists(dp) and cps.read_csv(dp):
        return "data.csv-unexpected", {"method": method, "rows": cps.read_csv(dp)[:3]}
    up = os.path.join(mdir, "unmatched.csv")
    un_mem = [ln for ln in (result.unmatched or [])]
    if un_mem:
        disk = cps.read_csv(up) if os.path.exists(up) else []
        want = [[str(x) for x in ln] for ln in un_mem]
        if disk != want:
            return "unmatched.csv", {"disk": disk[:5], "memory": want[:5]}
    elif os.path.exists(up) and cps.read_csv(up):
        return "unmatched.csv-unexpected", {}
    man = cps.read_json(os.path.join(mdir, "manifest.json"))
    if man.get("valid") != c.is_valid:
        return "manifest.valid", {"manifest": man.get("valid"), "memory": c.is_valid}
    if man.get("completed") != c.completed:
        return "manifest.completed", {"manifest": man.get("completed"), "memory": c.completed}
    fps = man.get("file_fingerprints") or {}
    on_disk = {f: cps.sha(os.path.join(mdir, f)) for f in RESULT_FILES if os.path.exists(os.path.join(mdir, f))}
    if fps != on_disk:
        bad = sorted(k for k in set(fps) | set(on_disk) if fps.get(k) != on_disk.get(k))
        return "manifest.file_fingerprints", {"differs_for": bad, "manifest": {k: fps.get(k) for k in bad}, "disk": {k: on_disk.get(k) for k in bad}}
    if man.get("error_count", len(result.errors)) != len(result.errors) and "error_count" in man:
        return "manifest.error_count", {"manifest": man.get("error_count"), "memory": len(result.errors)}
    return None


def check_run(pathsname, run_dir, results, collected_by_member, method, expect_names):
    """-> (problem, detail) or None"""
    rdir = os.path.join("archive", pathsname, run_dir)
    mp = os.path.join(rdir, "manifest.json")
    if not os.path.exists(mp):
        return "run-manifest-missing", {"run_dir": rdir}
    man = cps.read_json(mp)
    if man.get("status") != "complete":
        return "run-manifest-status", {"status": man.get("status")}
    dirs = sorted(d for d in os.listdir(rdir) if os.path.isdir(os.path.join(rdir, d)))
    if dirs != sorted(expect_names):
        return "member-directories", {"found": dirs, "expected": sorted(expect_names)}
    for r_, name, coll in zip(results, expect_names, collected_by_member):
        pr = check_member(r_, os.path.join(rdir, name), coll, method)
        if pr:
            return "member:" + pr[0], dict(pr[1], member=name)
    want_valid = all(r_.csvpath.is_valid for r_ in results)
    want_completed = all(r_.csvpath.completed for r_ in results)
    want_errors = sum(len(r_.errors) for r_ in results)
    if man.get("all_valid") != want_valid:
        return "run-manifest.all_valid", {"manifest": man.get("all_valid"), "members": [r_.csvpath.is_valid for r_ in results]}
    if man.get("all_completed") != want_completed:
        return "run-manifest.all_completed", {"manifest": man.get("all_completed"), "members": [r_.csvpath.completed for r_ in results]}
    if man.get("error_count") != want_errors:
        return "run-manifest.error_count", {"manifest": man.get("error_count"), "members": [len(r_.errors) for r_ in results]}
    return None

"""Run one (program, rows) case through the real interpreter under the hooks and
through the reference model; compare the per-line traces."""
import math
import os

from . import lang, model


PREFIX_ATTRIBUTION = ("F9",)


def norm(v):
    if isinstance(v, float):
        if math.isnan(v):
            return "nan"
        r = round(v, 9)
        if r == int(r) and abs(r) < 1e15:
            return float(int(r))
        return r
    if isinstance(v, bool):
        return v
    if isinstance(v, int):
        return float(v)
    if isinstance(v, (list, tuple)):
        return [norm(x) for x in v]
    if isinstance(v, dict):
        # a tracking read creates an entry holding None: not an assigned value
        return {str(k): norm(x) for k, x in v.items() if x is not None}
    return v


def norm_vars(d):
    out = {}
    for k, v in d.items():
        nv = norm(v)
        if isinstance(v, dict) and not nv:
            continue
        out[k] = nv
    return out


def real_run(prog, rows, agg, fname="p.csv", policy=("collect",), method="collect", **kw):
    from . import env, hooks

    text = lang.rows_to_text(rows)
    with open(fname, "w", newline="") as f:
        f.write(text)
    ptxt = lang.program_text(prog, fname)
    c, cap = env.new_csvpath(list(policy), **kw)
    out = {"text": ptxt, "exc": None, "lines": None}
    with hooks.recording(agg) as rec:
        try:
            if method == "collect":
                out["lines"] = c.collect(ptxt)
            elif method in ("next", "parse+next"):
                # the caller keeps the objects next() hands out (list(path.next())): they are looked at again after the run
                if method == "parse+next":
                    c.parse(ptxt)
                    it = c.next()
                else:
                    it = c.next(ptxt)
                held, at_yield = [], []
                out["_held"], out["lines_at_yield"] = held, at_yield
                for ln in it:
                    held.append(ln)
                    at_yield.append(ln[:])
            elif method == "parse+collect":
                c.parse(ptxt)
                out["lines"] = c.collect()
            else:
                c.fast_forward(ptxt)
        except Exception as e:  # noqa
            out["exc"] = f"{type(e).__name__}: {str(e)[:300]}"
    if "_held" in out:
        held = out.pop("_held")
        if out["exc"] is None:
            out["lines"] = [ln[:] for ln in held]
        out["lines_changed_after_yield"] = [ln[:] for ln in held] != out["lines_at_yield"]
    out["rec"] = rec
    out["csvpath"] = c
    out["printed"] = cap.lines
    out["errors"] = [(e.line_count, str(e.error)[:160]) for e in (c.errors or [])]
    return out


def model_trace(prog, rows, emulate=(), policy=None):
    m = model.Model(prog, rows, emulate=emulate, policy=policy)
    tr = m.run()
    return m, tr


def compare(real, mtrace, what=("match", "vars", "counters", "valid")):
    """first divergence between LineEvents and model trace, or None"""
    evs = real["rec"].lines
    # conservation monitors, independent of the model
    seen = 0
    for ev in evs:
        if ev["considered"]:
            seen += 1
        if ev["scan"] != seen:
            return {"kind": "conservation-scan_count", "pln": ev["pln"], "scan_count": ev["scan"], "lines_offered": seen}
        if ev.get("dmatch", 0) not in (0, 1):
            return {"kind": "conservation-match_count", "pln": ev["pln"], "delta": ev.get("dmatch")}
        if ev.get("dmatch", 0) == 1 and not ev["considered"]:
            return {"kind": "conservation-match-unscanned", "pln": ev["pln"]}
    if len(evs) < len(mtrace):
        return {"kind": "run-ended-early", "real_lines": len(evs), "model_lines": len(mtrace), "at": len(evs)}
    for i, mt in enumerate(mtrace):
        ev = evs[i]
        if ev["pln"] != mt["pln"]:
            return {"kind": "line-number", "at": i, "real": ev["pln"], "model": mt["pln"]}
        if ev["considered"] != mt["considered"]:
            return {"kind": "considered", "pln": mt["pln"], "real": ev["considered"], "model": mt["considered"]}
        if "match" in what and bool(ev["ret"]) != mt["matched"]:
            return {"kind": "match", "pln": mt["pln"], "line": ev["line"], "real": ev["ret"], "model": mt["matched"]}
        if "vars" in what and norm_vars(ev["vars"]) != norm_vars(mt["vars"]):
            return {"kind": "vars", "pln": mt["pln"], "line": ev["line"], "real": ev["vars"], "model": mt["vars"]}
        if "counters" in what and (ev["scan"], ev["match"]) != (mt["scan"], mt["match"]):
            return {"kind": "counters", "pln": mt["pln"], "real": [ev["scan"], ev["match"]], "model": [mt["scan"], mt["match"]]}
        if "valid" in what and ev["valid"] != mt["valid"]:
            return {"kind": "valid", "pln": mt["pln"], "real": ev["valid"], "model": mt["valid"]}
    # lines the real run considered after the model stopped
    for ev in evs[len(mtrace):]:
        if ev["considered"]:
            return {"kind": "run-continued", "pln": ev["pln"]}
    return None


def returned_lines_problem(real, mtrace, rows):
    if real["lines"] is None:
        return None
    want = [rows[mt["pln"]] for mt in mtrace if mt["matched"]]
    if real["lines"] != want:
        return {"kind": "returned-lines", "real": real["lines"][:6], "model": want[:6]}
    return None


ENTRY_POINTS = ["collect", "collect", "collect", "collect", "next", "next", "parse+next", "parse+collect", "fast_forward", "collect"]


def decide(prog, rows, agg, what, known_switches=(), extra_check=None, policy=None, model_policy=None):
    """policy: None -> real run under ['collect'] and any error is a divergence;
    a list -> real run under that policy, the model applies it to documented errors"""
    """-> (status, info)
    status: held | undecided | violation | known ; info: reason / witness"""
    # model_policy: the policy as the csvpath's own validation-mode comment leaves it (the real run gets the configured
    # policy and the comment; the reference evaluator gets the effective flags)
    real_policy = policy
    if model_policy is not None:
        policy = model_policy
    try:
        m, mtrace = model_trace(prog, rows, policy=policy)
    except model.Unspec as e:
        return "undecided", "unspec:" + str(e)[:40]
    except model.ExpErr as e:
        return "undecided", "error-expected"
    # the entry point rotates with the program text: the documented semantics do not depend on it
    import zlib

    method = ENTRY_POINTS[zlib.crc32(lang.program_text(prog, "p.csv").encode()) % len(ENTRY_POINTS)]
    agg.count("entry:" + method)
    real = real_run(prog, rows, agg, policy=("collect",) if real_policy is None else tuple(real_policy), method=method)
    try:
        os.unlink("p.csv")
    except OSError:
        pass
    witness = {"program": real["text"], "rows": rows, "entry_point": method}
    if real["exc"]:
        witness["exception"] = real["exc"]
        return "violation", ("exception", witness)
    if real["errors"] and policy is None:
        witness["errors"] = real["errors"][:3]
        # a known defect may have steered the real run into territory where an error is the documented
        # outcome (e.g. lt() true on equal operands executes a right-hand side the model never reaches)
        cand = [k for k in m.reached if k in known_switches]
        if cand:
            try:
                model_trace(prog, rows, emulate=cand, policy=policy)
            except (model.Unspec, model.ExpErr):
                return "known", (sorted(cand)[0], witness)
        return "violation", ("unexpected-error", witness)
    d = compare(real, mtrace, what)
    if d is None and "match" in what:
        d = returned_lines_problem(real, mtrace, rows)
    if d is None and extra_check is not None:
        d = extra_check(real, mtrace, m)
    if d is None:
        return "held", {
            "program": real["text"],
            "rows": rows[:4],
            "trace_head": [(t["pln"], t["matched"]) for t in mtrace[:4]],
            "fired_lines": [t["pln"] for t in mtrace if t.get("fired")],
            "advanced_over": sum(1 for ev in real["rec"].lines if ev.get("adv0", 0) > 0 and ev["considered"]),
            "lines_scanned": sum(1 for t in mtrace if t["considered"]),
            "lines_matched": sum(1 for t in mtrace if t["matched"]),
            "variables_written": len(mtrace[-1]["vars"]) if mtrace else 0,
            "verdict_changes": sum(1 for v in real["rec"].valid if v[2] is False),
            "errors_handled": len(real["errors"]),
        }
    witness["divergence"] = d
    # attribute to a known mechanism only if emulating it reproduces the observation exactly
    cand = [k for k in m.reached if k in known_switches]
    for _round in range(3):
        if not cand:
            break
        try:
            m2, mtrace2 = model_trace(prog, rows, emulate=cand, policy=policy)
            d2 = compare(real, mtrace2, what)
            if d2 is None and "match" in what:
                d2 = returned_lines_problem(real, mtrace2, rows)
            if d2 is None and extra_check is not None:
                d2 = extra_check(real, mtrace2, m2)
            if d2 is None:
                return "known", (sorted(cand)[0], witness)
            witness["residual_after_emulating"] = {"emulated": cand, "divergence": d2}
            # emulating one defect can bring the run to another known mechanism: close over them
            more = [k for k in m2.reached if k in known_switches and k not in cand]
            if not more:
                break
            cand = cand + more
        except (model.Unspec, model.ExpErr):
            # the known defect steers the run into a corner the docs leave undefined: attributed
            return "known", (sorted(cand)[0], witness)
    # mechanisms whose exact emulation is not always possible (nested look-aheads): everything before the
    # line where the mechanism is first reached must still agree; from that line on the trace is polluted
    for k in PREFIX_ATTRIBUTION:
        if k in known_switches and k in m.reached_at:
            cut = m.reached_at[k]
            import copy as _copy

            real_prefix = dict(real)
            rec2 = _copy.copy(real["rec"])
            rec2.lines = [ev for ev in real["rec"].lines if ev["pln"] < cut]
            real_prefix["rec"] = rec2
            dp = compare(real_prefix, [mt for mt in mtrace if mt["pln"] < cut], what)
            if dp is None:
                witness["attribution"] = f"prefix before line {cut} agrees; {k} reached at line {cut}"
                return "known", (k, witness)
    return "violation", (d["kind"], witness)

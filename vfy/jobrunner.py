"""Run a list of (csvpath, file) jobs in this (fresh) process and print their result tuples as JSON.
usage: python -m vfy.jobrunner <spec.json>   spec: {"cwd":..., "jobs":[{"text":..., "mode":"csvpaths"|"direct"}]}
"""
import json
import os
import sys


def result_tuple(c, lines, exc, cap):
    from vfy import diffrun

    return {
        "lines": lines,
        "exc": exc,
        "vars": diffrun.norm_vars({k: v for k, v in c.variables.items() if not str(k).startswith("_intx_")}),
        "printed": list(cap.lines),
        "errors": [[e.line_count, str(e.error)[:160]] for e in (c.errors or [])],
        "valid": c.is_valid,
        "scan": c.scan_count,
        "match": c.match_count,
        "stopped": c.stopped,
        "headers": list(c._headers) if c._headers is not None else None,
        "total_lines": c._line_monitor.physical_end_line_number if c._line_monitor is not None else None,
    }


def run_job(job, cs_holder):
    from vfy import env

    if job["mode"] == "csvpaths":
        if cs_holder.get("cs") is None or job.get("new_instance"):
            cs_holder["cs"] = env.new_csvpaths()
        c = cs_holder["cs"].csvpath()
        c.config.csvpath_errors_policy = ["collect", "print"]
        from csvpath.util.error import ErrorCommsManager

        c._ecoms = ErrorCommsManager(csvpath=c)
        c.printers = []
        cap = env.CapturePrinter()
        c.add_printer(cap)
    else:
        c, cap = env.new_csvpath(["collect", "print"])
    try:
        lines = c.collect(job["text"])
        exc = None
    except Exception as e:  # noqa
        lines, exc = None, f"{type(e).__name__}: {str(e)[:200]}"
    return result_tuple(c, lines, exc, cap)


def main():
    with open(sys.argv[1]) as f:
        spec = json.load(f)
    os.environ["CSVPATH_VERIF"] = "1"
    from vfy import env

    os.makedirs(spec["cwd"], exist_ok=True)
    os.chdir(spec["cwd"])
    env.write_config(".", csvpath_policy=["collect", "print"])
    env.install_lark_memo()
    real_out = sys.stdout
    sys.stdout = open(os.devnull, "w")
    out = []
    holder = {}
    for job in spec["jobs"]:
        out.append(run_job(job, holder))
    sys.stdout = real_out
    json.dump(out, sys.stdout, default=str)


if __name__ == "__main__":
    main()

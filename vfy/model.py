"""Reference evaluator ("documented semantics" oracle) for the modelled csvpath subset.

Written from README/docs (see DESIGN.md Appendix A). Three outcomes per case:
a decided per-line trace, ExpErr (documented behaviour is "this raises"), or
Unspec(reason) when evaluation reaches a corner the docs do not define.

Known-defect emulation switches (`emulate` set) make the model reproduce a listed
defect exactly at its mechanism, so a case polluted by a known finding can be
attributed without masking a second, unknown divergence.
"""
import copy
import math


class Unspec(Exception):
    pass


class ExpErr(Exception):
    pass


class _Stop(Exception):
    pass


def is_none(v):
    if v is None:
        return True
    if isinstance(v, float) and math.isnan(v):
        return True
    if isinstance(v, str) and v.strip() == "":
        return True
    return False


def looks_special(v):
    # cell texts the docs say nothing about but the implementation treats as null-ish / boolean
    return isinstance(v, str) and v.strip().lower() in ("none", "nan", "true", "false")


def as_number(v, where):
    """numeric argument conversion: text -> the function raises (ExpErr); none-ish -> Unspec"""
    if is_none(v):
        raise Unspec("none/empty operand to " + where)
    if isinstance(v, bool):
        raise Unspec("bool operand to " + where)
    if isinstance(v, (int, float)):
        return v
    s = str(v).strip()
    try:
        return int(s)
    except ValueError:
        pass
    try:
        f = float(s)
    except ValueError:
        raise ExpErr(where + " on text")
    if math.isnan(f) or math.isinf(f):
        raise Unspec("nan/inf text")
    return f


def canonical_int_text(s):
    s = s.strip()
    return s.isdigit() and str(int(s)) == s


VOTE_FUNCS = {
    "yes", "no", "not", "and", "or", "gt", "lt", "above", "below", "after", "before", "equals", "between", "inside",
    "from_to", "range", "beyond", "outside", "in", "empty", "exists", "all", "missing", "starts_with", "first", "every",
    "tally", "last", "failed", "valid",
}
SIDE_FUNCS = {"put", "push", "push_distinct", "counter", "sum", "subtotal", "stop", "skip", "advance", "fail", "fail_all", "fail_and_stop", "tally", "first", "every", "pop"}


class Model:
    def __init__(self, prog, rows, emulate=(), policy=None):
        self.policy = None if policy is None else set(policy)  # None: an error is outside the decided subset
        self.line_errors = 0
        self.prog = prog
        self.comps = prog["comps"]
        self.rows = rows
        self.AND = prog.get("mode", "AND") == "AND"
        self.emulate = set(emulate)
        self.reached = set()  # known-defect mechanisms whose predicate was reached
        self.reached_at = {}  # mechanism -> physical line where it was first reached
        self.vars = {}
        self.hidden = {}  # internal bookkeeping (every(), once) kept out of the visible variables
        self.headers = []
        for r_ in rows:
            if len(r_) > 0:
                self.headers = [clean_header(h) for h in r_]
                break
        self.valid = True
        self.stopped = False
        self.match_count = 0
        self.scan_count = 0
        self.data_count = 0
        self.advance = 0
        self.printed = []
        self.nonblank_total = sum(1 for r_ in rows if len(r_) > 0)
        self.scanset = parse_scan(prog["scan"])
        self.last_fired = 0
        self._matcher_built = False
        self.uses_advance = "'advance'" in repr(self.comps) or '"advance"' in repr(self.comps)

    def _build_matcher(self):
        # the match part is instantiated when the first line reaches it; named counters exist (at 0) from then on
        if not self._matcher_built:
            self._matcher_built = True
            for c in self.comps:
                self._init_counters(c)

    def _init_counters(self, n):
        # a named counter exists, at 0, from the start of the run
        if isinstance(n, (list, tuple)) and n:
            if n[0] == "fn":
                if n[1] == "counter" and n[3] and n[3][0] not in QUALS:
                    self.vars.setdefault(n[3][0], 0)
                for a in n[2]:
                    self._init_counters(a)
            elif n[0] in ("eq", "when"):
                self._init_counters(n[1])
                self._init_counters(n[2])
            elif n[0] == "assign":
                self._init_counters(n[4])

    # ------------------------------------------------------------ scan
    def in_scan(self, i):
        kind, val = self.scanset
        if kind == "all":
            return True
        if kind == "from":
            return i >= val
        return i in val

    def scan_last(self):
        kind, val = self.scanset
        if kind == "set":
            return max(val)
        return None

    # ------------------------------------------------------------ values
    def hdr(self, name):
        if name.isdigit():
            i = int(name)
        else:
            if name not in self.headers:
                return None
            i = self.headers.index(name)
        if i >= len(self.line):
            return None
        return self.line[i].strip()

    def getvar(self, name, tracking=None):
        v = self.vars.get(name)
        if tracking is not None:
            if isinstance(v, dict):
                if tracking in ("True", "False") and tracking not in v:
                    # "a variable's name and tracking value are strings. If you request ... @empty.True, the value will nevertheless be found"
                    return v.get(tracking == "True")
                return v.get(tracking)
            if v is None:
                return None
            raise Unspec("tracking read of a non-dict variable")
        return v

    def setvar(self, name, value, tracking=None):
        if self.frozen:
            return
        if tracking is not None:
            d = self.vars.get(name)
            if d is None:
                d = {}
                self.vars[name] = d
            elif not isinstance(d, dict):
                raise Unspec("tracking write to a non-dict variable")
            d[tracking] = value
        else:
            self.vars[name] = value

    def val(self, n):
        k = n[0]
        if k == "hdr":
            v = self.hdr(n[1])
            if looks_special(v):
                raise Unspec("null-ish/boolean-looking cell text")
            return v
        if k in ("int", "flt", "str", "regex"):
            return n[1]
        if k == "var":
            return self.getvar(n[1], n[2])
        if k == "eq":
            return self.vote(n)
        if k == "fn":
            return self.fnval(n)
        raise AssertionError(n)

    def numarg(self, a, f):
        return as_number(self.val(a), f)

    def fnval(self, n):
        f, a, q = n[1], n[2], n[3]
        if f in VOTE_FUNCS and f not in ("first", "every", "tally"):
            return self.vote(n)
        if f == "add":
            t = 0.0
            for x in a:
                t = float(self.numarg(x, f)) + t
            return t
        if f in ("subtract", "minus"):
            if len(a) == 1:
                v = self.val(a[0])
                if not isinstance(v, int):
                    raise Unspec("minus of non int term")
                return -v
            vs = [self.numarg(x, f) for x in a]
            t = float(vs[0])
            for v in vs[1:]:
                t -= float(v)
            return t
        if f == "multiply":
            vs = [self.numarg(x, f) for x in a]
            t = float(vs[0])
            for v in vs[1:]:
                t *= float(v)
            return t
        if f == "divide":
            vs = [self.numarg(x, f) for x in a]
            t = float(vs[0])
            for v in vs[1:]:
                if math.isnan(t) or float(v) == 0:
                    t = float("nan")
                else:
                    t = t / float(v)
            return t
        if f == "mod":
            x, y = self.numarg(a[0], f), self.numarg(a[1], f)
            if float(y) == 0:
                raise ExpErr("mod by zero")
            return round(float(x) % float(y), 2)
        if f == "round":
            x = self.numarg(a[0], f)
            places = 2 if len(a) < 2 else self.val(a[1])
            return round(float(x), places)
        if f == "int":
            v = self.val(a[0])
            if v is None:
                return None
            x = as_number(v, f)
            return int(x)
        if f == "float":
            v = self.val(a[0])
            if v is None:
                return None
            return float(as_number(v, f))
        if f == "length":
            v = self.val(a[0])
            if is_none(v):
                raise Unspec("length of none/empty")
            return len(str(v).strip())
        if f in ("header_name", "header_index"):
            x = self.val(a[0])
            if isinstance(x, int) or str(x).strip().isdigit():
                i = int(x)
                if i < 0:
                    raise Unspec("negative header index")
                actual = self.headers[i] if i < len(self.headers) else None
            else:
                actual = self.headers.index(x) if x in self.headers else None
            if len(a) < 2:
                return actual
            if actual is None:
                return False
            return actual == self.val(a[1])
        if f == "get":
            v = self.getvar(self.val(a[0]))
            if v is None or len(a) < 2:
                return v
            t = self.val(a[1])
            if isinstance(t, int) and not isinstance(t, bool) and isinstance(v, list):
                return v[t] if -1 < t < len(v) else None
            if isinstance(v, dict):
                return v.get(t)
            return None
        if f == "count_headers":
            return len(self.headers)
        if f == "count_headers_in_line":
            return len(self.line)
        if f == "end":
            i = len(self.line) - 1
            if a:
                i -= abs(int(self.val(a[0])))
            if 0 <= i < len(self.line):
                v = self.line[i].strip()
                if looks_special(v):
                    raise Unspec("null-ish/boolean-looking cell text")
                return v
            return None
        if f in ("regex", "exact"):
            import re as _re

            rx, target = (a[0], a[1]) if a[0][0] == "regex" else (a[1], a[0])
            v = self.val(target)
            if v is None:
                raise ExpErr("regex on an absent value is rejected by argument validation")
            if not isinstance(v, str):
                raise Unspec("regex on non-string")
            m = _re.search(rx[1].strip("/"), v)
            if f == "regex":
                return m.group(0) if m else None
            return bool(m) and m.group(0) == v
        if f == "count_lines":
            return self.data_count
        if f == "line_number":
            return self.lineno
        if f == "count_scans":
            return self.scan_count
        if f == "total_lines":
            return self.nonblank_total
        if f == "count":
            if a:
                # "scoped to its contained value, the count is of the values seen. If it is a bool, the count is of True and False";
                # stored under the function's name qualifier, keyed by the value
                name = q[0] if q and q[0] not in QUALS else None
                if name is None or "onmatch" in q:
                    raise Unspec("anonymous / onmatch count(v)")
                tv = self.val(a[0])
                if not isinstance(tv, bool):
                    raise Unspec("count(v) of a non-bool")
                cur = (self.getvar(name, tv) or 0) + 1
                self.setvar(name, cur, tv)
                return cur
            return self.match_count + 1
        if f in ("concat", "lower", "upper", "strip", "substring"):
            vs = [self.val(x) for x in a]
            chk = vs if f == "concat" else vs[:1]
            if any(is_none(v) for v in chk):
                raise Unspec("string function on none/empty")
            if any(not isinstance(v, str) for v in chk):
                raise Unspec("string function on non-string")
            if f == "concat":
                return "".join(vs).strip()
            if f == "lower":
                return vs[0].lower().strip()
            if f == "upper":
                return vs[0].upper().strip()
            if f == "strip":
                return vs[0].strip()
            if f == "substring":
                if vs[1] < 0:
                    raise ExpErr("substring negative")
                return vs[0][0 : vs[1]].strip()
        if f == "sum":
            name = q[0] if q and q[0] not in QUALS else "sum"
            cur = self.getvar(name)
            if cur is None:
                cur = 0
            if "onmatch" in q and not getattr(self, "rest_ok", True):
                self.numarg(a[0], f)  # the operand is validated whether or not the line matches
                if self.getvar(name) is None:
                    self.setvar(name, 0)
                return cur
            v = self.numarg(a[0], f)
            cur = cur + float(v)
            self.setvar(name, cur)
            return cur
        if f == "subtotal":
            name = q[0] if q and q[0] not in QUALS else "subtotal"
            key = self.val(a[0])
            if is_none(key):
                raise Unspec("subtotal none key")
            cur = self.getvar(name, key)
            if cur is None:
                cur = 0
            cur = cur + float(self.numarg(a[1], f))
            self.setvar(name, cur, key)
            return cur
        if f == "counter":
            name = q[0] if q and q[0] not in QUALS else None
            if name is None:
                raise Unspec("anonymous counter")
            cur = self.getvar(name)
            if cur is None:
                cur = 0
            if "onmatch" in q and not getattr(self, "rest_ok", True):
                return None
            inc = 1 if not a else self.val(a[0])
            cur += inc
            self.setvar(name, cur)
            return cur
        if f == "pop":
            name = self.val(a[0])
            st = self.getvar(name)
            if st is None:
                self.setvar(name, [])
                return None
            if not isinstance(st, list):
                raise Unspec("pop of non-stack")
            if len(st) == 0:
                return None
            v = st[-1]
            if "F4" in self.emulate:
                self.setvar(name, st[0 : len(st) - 2])
            else:
                self.setvar(name, st[:-1])
            return v
        if f == "peek":
            name = self.val(a[0])
            st = self.getvar(name)
            if st is None:
                self.setvar(name, [])
                return None
            if not isinstance(st, list):
                raise Unspec("peek of non-stack")
            i = self.val(a[1])
            return st[i] if i < len(st) else None
        if f == "peek_size":
            name = self.val(a[0])
            st = self.getvar(name)
            if st is None:
                self.setvar(name, [])
                return 0
            if not isinstance(st, list):
                raise Unspec("peek_size of non-stack")
            return len(st)
        if f in ("first", "every", "tally"):
            return self.vote(n)
        raise AssertionError("fnval " + str(n))

    # ------------------------------------------------------------ comparisons
    def cmp_operands(self, x, y, f):
        """-> (x, y) numbers, or False when exactly one side is absent"""
        if (x is None) != (y is None):
            return False
        if x is None and y is None:
            raise Unspec("both operands absent")
        if is_none(x) or is_none(y):
            raise Unspec("empty operand to " + f)
        try:
            return as_number(x, f), as_number(y, f)
        except ExpErr:
            raise Unspec("comparison involving text (string ordering)")

    # ------------------------------------------------------------ votes
    def vote(self, n):
        k = n[0]
        if k == "hdr":
            v = self.hdr(n[1])
            if looks_special(v):
                raise Unspec("null-ish/boolean-looking cell text")
            return not is_none(v)
        if k == "var":
            v = self.getvar(n[1], n[2])
            if isinstance(v, float) and math.isnan(v):
                raise Unspec("nan variable")
            return v is not None
        if k in ("int", "str", "flt"):
            raise Unspec("term as vote")
        if k == "eq":
            return self.equality(self.val(n[1]), self.val(n[2]))
        if k != "fn":
            raise AssertionError(n)
        f, a, q = n[1], n[2], n[3]
        if f == "yes":
            return True
        if f == "no":
            return False
        if f == "not":
            return not self.vote(a[0])
        if f == "and":
            # every argument is evaluated (argument validation evaluates all up front)
            vs = [self.vote(x) for x in a]
            return all(vs)
        if f == "or":
            vs = [self.vote(x) for x in a]
            return any(vs)
        if f in ("gt", "above", "after", "lt", "below", "before"):
            r_ = self.cmp_operands(self.val(a[0]), self.val(a[1]), f)
            if r_ is False:
                return False
            x, y = r_
            if math.isnan(float(x)) or math.isnan(float(y)):
                raise Unspec("nan comparison")
            if f in ("gt", "above", "after"):
                return x > y
            if x == y:
                self.reached.add("F1")
                if "F1" in self.emulate:
                    return True
            return x < y
        if f == "equals":
            x, y = self.val(a[0]), self.val(a[1])
            if x is None and y is None:
                return True
            if is_none(x) or is_none(y):
                raise Unspec("equals with none/empty")
            try:
                fx, fy = float(as_number(x, f)), float(as_number(y, f))
            except ExpErr:
                raise Unspec("equals on text")
            if math.isnan(fx) or math.isnan(fy):
                raise Unspec("nan equals")
            return fx == fy
        if f in ("between", "inside", "from_to", "range", "beyond", "outside"):
            vs = [self.val(x) for x in a]
            for v in vs:
                if isinstance(v, str) and not is_none(v):
                    try:
                        as_number(v, f)
                    except ExpErr:
                        raise Unspec("between on text")
            if any(v is None for v in vs):
                return False
            if any(is_none(v) for v in vs):
                raise Unspec("between with empty")
            m, x, y = [float(as_number(v, f)) for v in vs]
            if any(math.isnan(z) for z in (m, x, y)):
                raise Unspec("nan between")
            lo, hi = min(x, y), max(x, y)
            if f in ("between", "inside"):
                return lo < m < hi
            if f in ("from_to", "range"):
                return lo <= m <= hi
            return m < lo or m > hi
        if f == "in":
            # "compares its first argument to all the other arguments ... string Terms are pipe delimited lists of values"
            v = self.val(a[0])
            opts = []
            for o in a[1:]:
                if o[0] == "str":
                    opts += [x.strip() for x in o[1].split("|")]
                elif o[0] in ("int", "flt"):
                    raise Unspec("in() with a numeric term option")
                else:
                    ov = self.val(o)
                    if isinstance(ov, (list, tuple, dict)):
                        raise Unspec("in() with a container option")
                    if ov is None:
                        continue  # an absent option equals nothing that is present (v is present below)
                    if isinstance(ov, str) and ov.strip() == "":
                        raise Unspec("in() with an empty option value")
                    if not isinstance(ov, str):
                        raise Unspec("in() with non-string option value")
                    opts.append(ov)
            if v is None:
                if len(a) > 2 or a[1][0] != "str":
                    raise Unspec("in() of an absent value against non-literal options")
                return False
            if not isinstance(v, str):
                raise Unspec("in() with non-string value")
            if v.strip() == "" and (len(a) > 2 or a[1][0] != "str"):
                raise Unspec("in() of an empty value against non-literal options")
            return v in opts
        if f in ("empty", "exists"):
            v = self.val(a[0])
            if isinstance(v, (list, dict, tuple)):
                raise Unspec("empty/exists of container")
            return is_none(v) if f == "empty" else not is_none(v)
        if f in ("all", "missing"):
            vs = [self.val(x) for x in a]
            ok = all(not is_none(v) for v in vs)
            return ok if f == "all" else not ok
        if f == "starts_with":
            v = self.val(a[0])
            if is_none(v) or not isinstance(v, str):
                raise Unspec("starts_with none/non-string")
            return v.strip().startswith(a[1][1].strip())
        if f == "first":
            h = a[0]
            v = self.val(h)
            if v is None:
                raise Unspec("first of absent")
            key = str(v).strip()
            if key == "":
                raise Unspec("first of empty")
            name = q[0] if q and q[0] not in QUALS else "first"
            seen = self.getvar(name, key)
            if seen is None:
                self.setvar(name, self.lineno, key)
                return True
            return False
        if f == "every":
            v = self.val(a[0])
            if is_none(v):
                raise Unspec("every of absent/empty")
            if repr(self.comps).count(repr(n)) > 1:
                raise Unspec("two textually identical every() share bookkeeping")
            key = ("every", id_of(n), v)
            cnt = self.hidden.get(key, 0) + 1
            if not self.frozen:
                self.hidden[key] = cnt
            return cnt % a[1][1] == 0
        if f == "tally":
            # each value is counted under <name>_<header>; two or more values are also counted, pipe-joined, under <name>
            base = q[0] if q and q[0] not in QUALS else "tally"
            vals = []
            for h in a:
                v = self.val(h)
                if v is None:
                    raise Unspec("tally of absent")
                vals.append(f"{v}")
            for h, key in zip(a, vals):
                if key.strip() == "":
                    continue  # an empty value is not counted
                name = f"{base}_{h[1]}"
                self.setvar(name, (self.getvar(name, key) or 0) + 1, key)
            if len(a) > 1:
                key = "|".join(vals)
                if key.strip() != "":
                    self.setvar(base, (self.getvar(base, key) or 0) + 1, key)
            return True
        if f == "regex":
            return self.fnval(n) is not None
        if f == "exact":
            return self.fnval(n)
        if f == "end":
            return self.fnval(n) is not None
        if f in ("header_name", "header_index"):
            v = self.fnval(n)
            if v is None:
                return False
            if isinstance(v, bool):
                return v
            return True
        if f == "get":
            return self.fnval(n) is not None
        if f == "last":
            self.check_a1()
            return self.is_last_line
        if f == "failed":
            return not self.valid
        if f == "valid":
            return self.valid
        raise AssertionError("vote " + str(n))

    def check_a1(self):
        # A1: a scan window whose final line is a blank record (not the file's final record): the docs do not
        # say whether last() fires; both readings are admissible, so such cases are not decided.
        sl = self.scan_last()
        if sl is not None and sl < len(self.rows) - 1 and len(self.rows[sl]) == 0:
            raise Unspec("A1: scan window ends on a blank record")
        if self.uses_advance:
            raise Unspec("last() together with advance()")

    def equality(self, l, r_):
        for x in (l, r_):
            if isinstance(x, float) and math.isnan(x):
                raise Unspec("nan ==")
            if isinstance(x, (list, dict, tuple)):
                raise Unspec("container ==")
        lnum = isinstance(l, (int, float)) and not isinstance(l, bool)
        rnum = isinstance(r_, (int, float)) and not isinstance(r_, bool)
        if isinstance(l, bool) or isinstance(r_, bool):
            raise Unspec("bool ==")
        if lnum and rnum:
            return l == r_
        if isinstance(l, str) and isinstance(r_, str):
            return l.strip() == r_.strip()
        if l is None and r_ is None:
            raise Unspec("none == none")
        if l is None or r_ is None:
            if (isinstance(l, str) and l.strip() == "None") or (isinstance(r_, str) and r_.strip() == "None"):
                raise Unspec("'None' text")
            return False
        # one string, one number
        s, nmb = (l, r_) if isinstance(l, str) else (r_, l)
        st = s.strip()
        if st == str(nmb):
            return True
        try:
            f = float(st)
        except ValueError:
            return False
        if f == float(nmb):
            raise Unspec("numerically equal but differently written (1.0 vs 1)")
        return False

    # ------------------------------------------------------------ components
    def side_effect(self, n):
        """execute an action/side-effecting function; returns its vote"""
        k = n[0]
        if k == "assign":
            return self.assign(n)
        if k == "print":
            return self.do_print(n)
        f, a, q = n[1], n[2], n[3]
        if f in ("push", "push_distinct"):
            name = self.val(a[0])
            v = self.val(a[1])
            st = self.getvar(name)
            if st is None:
                st = []
                self.setvar(name, st)
                st = self.getvar(name)
            if st is None:
                return True  # frozen
            if not isinstance(st, list):
                raise Unspec("push to non-stack")
            if (f == "push_distinct" or "distinct" in q) and v in st:
                return True
            if "notnone" in q and is_none(v):
                return True
            if self.frozen:
                return True
            st.append(v)
            return True
        if f == "count":
            self.fnval(n)
            return True
        if f == "put":
            name = self.val(a[0])
            if len(a) == 3:
                self.setvar(name, self.val(a[2]), self.val(a[1]))
            else:
                self.setvar(name, self.val(a[1]))
            return True
        if f in ("counter", "sum", "subtotal", "pop"):
            self.fnval(n)
            return True
        if f in ("tally", "first", "every"):
            return self.vote(n)
        if f in ("stop", "fail_and_stop"):
            fire = True if not a else self.vote(a[0])
            if fire:
                self.stopped = True
                self.stop_fired = True
                if f == "fail_and_stop":
                    self.valid = False
            return True
        if f == "skip":
            okey = "once|" + repr(n)
            if "once" in q and self.hidden.get(okey):
                return True  # skip.once already fired in this run
            fire = True if not a else self.vote(a[0])
            if fire:
                self.skip_fired = True
                if "once" in q:
                    self.hidden[okey] = True
            return True
        if f == "advance":
            v = self.val(a[0])
            self.advance = int(v)
            return True
        if f in ("fail", "fail_all"):
            # (standalone, fail_all() has no siblings to fail: it is fail())
            self.valid = False
            return True
        raise AssertionError("side " + str(n))

    def do_print(self, n):
        self.printed.append((self.lineno, n[1]))
        return True

    def assign(self, n):
        _, name, tracking, quals, valn = n
        if any(q_ in quals for q_ in ("latch", "onchange", "increase", "decrease", "notnone", "asbool", "nocontrib")):
            raise Unspec("assignment qualifier (C14 covers these)")
        y = self.val(valn)
        if isinstance(y, str) and looks_special(y):
            raise Unspec("special text assigned")
        self.setvar(name, y, tracking)
        return True

    def is_effectful(self, n):
        k = n[0]
        if k in ("assign", "print"):
            return True
        if k == "fn" and n[1] == "count" and n[2]:
            return True
        if k == "fn" and n[1] in SIDE_FUNCS:
            return True
        return False

    def comp_vote(self, c):
        """evaluate one top-level component, left to right semantics; returns its vote"""
        k = c[0]
        if k == "assign":
            self.assign(c)
            return True if self.AND else False
        if k == "print":
            self.do_print(c)
            return True if self.AND else False
        if k == "when":
            left = c[1]
            lv = self.side_effect(left) if self.is_effectful(left) else self.vote(left)
            if lv:
                if left[0] == "fn" and left[1] == "last":
                    was = self.frozen
                    self.frozen = False
                    try:
                        self.side_effect(c[2])
                    finally:
                        self.frozen = was
                else:
                    self.side_effect(c[2])
                return True
            return False
        if self.is_effectful(c):
            v = self.side_effect(c)
            if c[0] == "fn" and c[1] in ("push", "push_distinct", "counter", "sum", "subtotal", "stop", "skip", "advance", "fail", "fail_all", "fail_and_stop", "pop", "count"):
                return True if self.AND else v
            return v
        return self.vote(c)

    def nested_onmatch(self, c):
        """an assignment (itself unqualified) whose value is an onmatch-qualified aggregate: the assignment always
        happens, the aggregate only takes in the line when the rest of the line matches"""
        return c[0] == "assign" and "onmatch" not in c[3] and c[4][0] == "fn" and c[4][1] in ("sum", "counter") and "onmatch" in c[4][3]

    def has_onmatch(self, c):
        if c[0] == "assign":
            if self.nested_onmatch(c):
                return True
            return "onmatch" in c[3] or (c[4][0] == "fn" and c[4][1] == "count" and not c[4][2])
        if c[0] == "print":
            return "onmatch" in c[2]
        if c[0] == "fn":
            return "onmatch" in c[3]
        return False

    # ------------------------------------------------------------ a line
    def run_line(self, i, line):
        """returns dict(considered, matched) and updates state"""
        self.lineno = i
        self.line = line
        self.line_errors = 0
        self.stop_fired = False
        self.skip_fired = False
        file_last = len(self.rows) - 1
        if len(line) == 0:
            if i == file_last:
                # blank final record: only last() components run, frozen, nothing is returned
                self._matcher_built = True  # built while frozen: nothing can be initialised any more
                self.frozen = True
                self.is_last_line = True
                self.blank_last = True
                for c in self.comps:
                    self.run_lasts(c)
                return {"considered": False, "matched": False}
            return {"considered": False, "matched": False}
        self.data_count += 1
        if not self.in_scan(i):
            return {"considered": False, "matched": False}
        self.scan_count += 1
        sl = self.scan_last()
        self.is_last_line = (i == file_last) or (sl is not None and i == sl)
        if self.advance > 0:
            self.advance -= 1
            matched = False
        else:
            self._build_matcher()
            self.line_errors = 0
            matched = self.eval_components()
            if self.line_errors:
                if "raise" in self.policy:
                    raise Unspec("raise policy")
                if "stop" in self.policy:
                    self.stopped = True
                if "fail" in self.policy:
                    self.valid = False
        if sl is not None and i == sl:
            self.stopped = True
        if self.scanset[0] != "set" and i == file_last:
            self.stopped = True
        if matched:
            self.match_count += 1
        return {"considered": True, "matched": matched}

    def run_lasts(self, c):
        if c[0] == "when" and c[1][0] == "fn" and c[1][1] == "last":
            self.last_fired += 1
            self.frozen = False
            try:
                self.side_effect(c[2])
            finally:
                self.frozen = True
        elif c[0] == "fn" and c[1] == "last":
            self.last_fired += 1

    def eval_components(self):
        comps = self.comps
        om = [self.has_onmatch(c) for c in comps]
        votes = [None] * len(comps)
        interrupted = False
        control_idx = None
        self.ran = []
        f9 = "F9" in self.emulate
        for idx, c in enumerate(comps):
            if (self.stop_fired or self.skip_fired) and not (f9 and any(om[:control_idx])):
                interrupted = True
                break
            if om[idx]:
                if c[0] == "assign" and not self.nested_onmatch(c):
                    self.val(c[4])  # may raise Unspec / ExpErr: the value is computed whether or not the line matches
                continue
            try:
                votes[idx] = self.comp_vote(c)
            except ExpErr:
                # an error in a component: the component (and so the line, in AND mode) does not match;
                # the error is handled under the policy when the line's evaluation ends
                if self.policy is None or self.is_effectful(c) or c[0] == "when":
                    raise
                votes[idx] = False
                self.line_errors += 1
            self.ran.append(idx)
            if (self.stop_fired or self.skip_fired) and control_idx is None:
                control_idx = idx
        if control_idx is not None and any(om[:control_idx]):
            self.reached.add("F9")
            self.reached_at.setdefault("F9", self.lineno)
            if f9:
                # known defect F9: the look-ahead of an earlier onmatch component has already run every
                # other component (also those placed after the firing skip/stop); the line then fails
                decided = [v for v, o in zip(votes, om) if not o]
                if all(decided):
                    self.match_count += 1
                    order = [idx for idx in range(len(comps)) if om[idx]]
                    if len(order) > 1:
                        self.reached.add("F9b")
                    if len(order) > 1 and "F9b" in self.emulate:
                        order.reverse()
                    for idx in order:
                        self.comp_vote(strip_onmatch(comps[idx]))
                        self.ran.append(idx)
                return False
        if self.skip_fired:
            # a fired skip: the line does not match, later components did not run
            if control_idx == len(comps) - 1:
                self.reached.add("skip-last")
            return False
        if interrupted:
            # stop fired before the final component: line not returned, later components not run
            return False
        decided = [v for v, o in zip(votes, om) if not o]
        if self.AND:
            rest = all(decided)
        else:
            rest = any(decided)
        if any(om):
            if not self.AND:
                raise Unspec("onmatch in OR mode")
            self.rest_ok = rest
            if not rest:
                for idx, c in enumerate(comps):
                    if om[idx] and self.nested_onmatch(c):
                        self.comp_vote(c)
                        self.ran.append(idx)
            if rest:
                # onmatch components take effect only when the rest of the line matches
                order = [idx for idx in range(len(comps)) if om[idx]]
                if len(order) > 1:
                    self.reached.add("F9b")
                    if "F9b" in self.emulate:
                        order.reverse()
                for idx in order:
                    self.comp_vote(strip_onmatch(comps[idx]))
                    self.ran.append(idx)
        return rest

    # ------------------------------------------------------------ whole run
    def run(self, lenient=False):
        """lenient (stateless single-vote programs only): a line whose verdict is Unspecified or an expected
        error is recorded as undecided (matched None) and the sweep continues with the next line"""
        trace = []
        self.frozen = False
        self.blank_last = False
        for i, line in enumerate(self.rows):
            if self.stopped:
                break
            if lenient:
                sc, mc, dc = self.scan_count, self.match_count, self.data_count
                try:
                    res = self.run_line(i, line)
                except (Unspec, ExpErr) as e:
                    self.scan_count, self.data_count = sc + 1, dc + 1
                    res = {"considered": True, "matched": None, "undecided": type(e).__name__ + ":" + str(e)[:40]}
            else:
                res = self.run_line(i, line)
            res.update({"pln": i, "vars": copy.deepcopy(self.vars), "valid": self.valid, "scan": self.scan_count, "match": self.match_count, "ran": list(getattr(self, "ran", [])), "errs": self.line_errors, "fired": ("stop" if self.stop_fired else ("skip" if self.skip_fired else None))})
            self.ran = []
            trace.append(res)
        return trace


QUALS = {"onmatch", "onchange", "asbool", "nocontrib", "latch", "increase", "decrease", "notnone", "distinct", "once"}


def strip_onmatch(c):
    if c[0] == "assign":
        return ("assign", c[1], c[2], [q for q in c[3] if q != "onmatch"], c[4])
    if c[0] == "print":
        return ("print", c[1], [q for q in c[2] if q != "onmatch"])
    if c[0] == "fn":
        return ("fn", c[1], c[2], [q for q in c[3] if q != "onmatch"])
    return c


def id_of(n):
    return repr(n)


def clean_header(h):
    h = h.strip()
    for ch in [";", ",", "|", "\t", "`"]:
        h = h.replace(ch, "")
    return h


def parse_scan(s):
    s = s.strip()
    if s == "*":
        return ("all", None)
    if s.endswith("*"):
        return ("from", int(s[:-1]))
    out = set()
    for item in s.split("+"):
        if "-" in item:
            a, b = item.split("-")
            a, b = int(a), int(b)
            out |= set(range(min(a, b), max(a, b) + 1))
        else:
            out.add(int(item))
    return ("set", frozenset(out))

"""Typed AST for the modelled csvpath subset: constructors, renderer, random generator.

Nodes are tuples (JSON friendly once listified):
  ('hdr', name)            #name   (name may be an index string)
  ('int', n) ('flt', x) ('str', s)
  ('var', name, tracking|None)
  ('fn', name, [args], [quals])        quals: list of qualifier strings, first non-term one is the "name"
  ('eq', left, right)                  left == right
  ('when', left, action)               left -> action
  ('assign', name, tracking|None, [quals], value)
  ('print', template_text, [quals])
A program is {"scan": str, "comps": [node...], "mode": "AND"|"OR"}.
"""
import zlib
import json

# ------------------------------------------------------------------ rendering


def qn(name, quals):
    return name + "".join("." + q for q in quals)


def txt(n):
    k = n[0]
    if k == "hdr":
        nm = n[1]
        return f'#"{nm}"' if " " in nm else "#" + nm
    if k == "int":
        return str(n[1])
    if k == "flt":
        return repr(float(n[1]))
    if k == "str":
        return '"' + n[1] + '"'
    if k == "regex":
        return n[1]
    if k == "var":
        return "@" + n[1] + ("." + n[2] if n[2] else "")
    if k == "fn":
        return qn(n[1], n[3]) + "(" + ", ".join(txt(a) for a in n[2]) + ")"
    if k == "eq":
        return txt(n[1]) + " == " + txt(n[2])
    if k == "when":
        return txt(n[1]) + " -> " + txt(n[2])
    if k == "assign":
        return "@" + n[1] + ("." + n[2] if n[2] else "") + "".join("." + q for q in n[3]) + " = " + txt(n[4])
    if k == "print":
        return qn("print", n[2]) + '("' + n[1] + '")'
    raise ValueError(k)


def program_text(prog, fname, sep=" "):
    meta = ""
    if prog.get("mode") == "OR":
        meta += "logic-mode: OR "
    meta += prog.get("comment", "")
    head = f"~ {meta}~ " if meta else ""
    return f"{head}${fname}[{prog['scan']}][{sep.join(txt(c) for c in prog['comps'])}]"


def skeleton(n):
    """AST with literals erased - the 'shape' of a program"""
    k = n[0]
    if k in ("int", "flt"):
        return "N"
    if k == "str":
        return "S"
    if k == "regex":
        return "X"
    if k == "hdr":
        return "#" + n[1]
    if k == "var":
        return "@" + ("t" if n[2] else "")
    if k == "fn":
        return qn(n[1], [q for q in n[3] if q in QUALS]) + "(" + ",".join(skeleton(a) for a in n[2]) + ")"
    if k == "eq":
        return skeleton(n[1]) + "==" + skeleton(n[2])
    if k == "when":
        return skeleton(n[1]) + "->" + skeleton(n[2])
    if k == "assign":
        return "@" + ("t" if n[2] else "") + "".join("." + q for q in n[3]) + "=" + skeleton(n[4])
    if k == "print":
        return qn("print", n[2])
    return "?"


def prog_shape(prog):
    return prog.get("mode", "AND") + "[" + shape_scan(prog["scan"]) + "]" + " ".join(skeleton(c) for c in prog["comps"])


def shape_scan(s):
    return "".join("n" if ch.isdigit() else ch for ch in s)


QUALS = ["onmatch", "onchange", "asbool", "nocontrib", "latch", "increase", "decrease", "notnone", "distinct", "once"]


def tolist(n):
    return json.loads(json.dumps(n))


def functions_used(n, acc=None):
    acc = acc if acc is not None else set()
    if isinstance(n, (list, tuple)) and n:
        if n[0] == "fn":
            acc.add(n[1])
            for a in n[2]:
                functions_used(a, acc)
        elif n[0] in ("eq", "when"):
            acc.add("==" if n[0] == "eq" else "->")
            functions_used(n[1], acc)
            functions_used(n[2], acc)
        elif n[0] == "assign":
            acc.add("=")
            functions_used(n[4], acc)
        elif n[0] == "print":
            acc.add("print")
    return acc


# ------------------------------------------------------------------ generator

NUMH = ["a", "b"]  # numeric-ish columns
STRH = ["c", "d"]  # text columns
ALLH = NUMH + STRH
INT_TERMS = [0, 1, 2, 3, 5, 9, 10, 11, 100, -1, 1000]
STR_TERMS = ["abc", "x", "Q", "ab", "b c", "zz", "x.y", "[z]"]


class Gen:
    def __init__(self, r, features=()):
        self.r = r
        self.f = set(features)
        self.nvars = []  # numeric variables assigned so far (visible to later components)
        self.svars = []
        self.bvars = []
        self.stacks = []
        self.countvars = []
        self.counter = 0

    # ---- values
    def num(self, d):
        r = self.r
        c = r.random()
        if d <= 0 or c < 0.4:
            opts = [("hdr", "a"), ("hdr", "b"), ("hdr", "a"), ("hdr", "b"), ("int", r.choice(INT_TERMS))]
            if r.random() < 0.1:
                opts.append(("hdr", r.choice(["0", "1"])))
            if r.random() < 0.08:
                opts.append(("hdr", "A"))  # a capitalised twin of header a (a fifth column in some files)
            opts += [("var", v, None) for v in self.nvars]
            opts += [("fn", "get", [("str", v)], []) for v in self.nvars[:1]]
            opts += [("var", v, r.choice(["True", "False"])) for v in self.countvars[:2]]
            return r.choice(opts)
        f = r.choice(["add", "subtract", "multiply", "int", "length", "count_lines", "line_number", "mod", "round", "minus", "count_scans", "total_lines", "float", "divide", "count_headers", "count_headers_in_line"])
        if f in ("add", "multiply"):
            args = [self.num(d - 1), self.num(d - 1)]
            if r.random() < 0.15:
                args.append(self.num(d - 1))
            return ("fn", f, args, [])
        if f == "subtract":
            return ("fn", f, [self.num(d - 1), self.num(d - 1)], [])
        if f == "minus":
            return ("fn", r.choice(["minus", "subtract"]), [("int", r.choice([1, 2, 5, 10]))], [])
        if f == "mod":
            return ("fn", f, [self.num(d - 1), ("int", r.choice([2, 3, 4, 5]))], [])
        if f == "divide":
            return ("fn", f, [self.num(d - 1), r.choice([("int", r.choice([1, 2, 4, 0])), self.num(d - 1)])], [])
        if f == "round":
            a = [self.num(d - 1)]
            if r.random() < 0.5:
                a.append(("int", r.choice([0, 1, 2])))
            return ("fn", f, a, [])
        if f in ("int", "float"):
            return ("fn", f, [r.choice([("hdr", "a"), ("hdr", "b"), self.num(d - 1)])], [])
        if f == "length":
            return ("fn", "length", [self.strv(d - 1, term_ok=False)], [])
        return ("fn", f, [], [])

    def strv(self, d, term_ok=True):
        r = self.r
        c = r.random()
        if d <= 0 or c < 0.45:
            opts = [("hdr", "c"), ("hdr", "d"), ("hdr", "c")]
            if term_ok:
                opts.append(("str", r.choice(STR_TERMS)))
            opts += [("var", v, None) for v in self.svars]
            return r.choice(opts)
        f = r.choice(["concat", "lower", "upper", "strip", "substring", "end"])
        if f == "end":
            return ("fn", "end", [] if r.random() < 0.5 else [("int", r.choice([0, 1, 2]))], [])
        if f == "concat":
            args = [self.strv(d - 1), self.strv(d - 1)]
            if r.random() < 0.25:
                args.append(self.strv(d - 1))
            return ("fn", "concat", args, [])
        if f == "substring":
            return ("fn", "substring", [self.strv(d - 1, term_ok=False), ("int", r.choice([0, 1, 2, 5]))], [])
        return ("fn", f, [self.strv(d - 1, term_ok=False)], [])

    # ---- votes
    def boolv(self, d, simple=False):
        r = self.r
        c = r.random()
        if d <= 0 or c < 0.2:
            opts = [
                ("fn", "yes", [], []),
                ("fn", "no", [], []),
                ("hdr", r.choice(ALLH)),
                ("eq", ("hdr", "c"), ("str", r.choice(STR_TERMS))),
                ("eq", ("hdr", "a"), ("int", r.choice(INT_TERMS))),
                ("fn", r.choice(["header_name", "header_index"]), r.choice([[("int", r.choice([0, 1, 3, 7]))], [("str", r.choice(["a", "c", "zz"]))], [("int", r.choice([0, 2])), ("str", r.choice(["a", "c"]))], [("str", r.choice(["b", "d", "zz"])), ("int", r.choice([1, 3]))]]), []),
            ]
            opts += [("var", v, None) for v in (self.nvars + self.svars)[:3]]
            opts += [("fn", "get", [("str", v)], []) for v in (self.nvars + self.svars)[:2]]
            opts += [("fn", "get", [("str", v), ("int", r.choice([0, 1, 5]))], []) for v in self.stacks[:1]]
            return r.choice(opts)
        fs = ["not", "and", "or", "gt", "lt", "above", "below", "equals", "between", "from_to", "beyond", "in", "empty", "exists", "starts_with", "eqn", "eqs", "all", "missing", "inside", "outside", "range", "after", "before", "eqnn", "regex", "exact"]
        f = r.choice(fs)
        if f in ("regex", "exact"):
            rx = ("regex", r.choice(["/^a/", "/b c/", "/[A-Z]+/", "/x$/", "/ab+c/", "/^abc$/", "/[0-9]+/", "/q|Q/"]))
            tgt = ("hdr", r.choice(STRH + ["a"])) if r.random() < 0.8 else self.strv(d - 1, term_ok=False)
            return ("fn", f, [tgt, rx] if r.random() < 0.6 else [rx, tgt], [])
        if f == "not":
            x = self.boolv(d - 1)
            if x[0] in ("int", "str"):
                x = ("fn", "yes", [], [])
            return ("fn", "not", [x], [])
        if f in ("and", "or"):
            args = [self.boolv(d - 1), self.boolv(d - 1)]
            if r.random() < 0.2:
                args.append(self.boolv(d - 1))
            return ("fn", f, args, [])
        if f in ("gt", "lt", "above", "below", "after", "before"):
            return ("fn", f, [self.num(d - 1), self.num(d - 1)], [])
        if f == "equals":
            return ("fn", "equals", [self.num(d - 1), self.num(d - 1)], [])
        if f in ("between", "from_to", "beyond", "inside", "outside", "range"):
            return ("fn", f, [self.num(d - 1), self.num(d - 1), self.num(d - 1)], [])
        if f == "in":
            c = r.random()
            if c < 0.4:
                return ("fn", "in", [("hdr", r.choice(STRH)), ("str", r.choice(["abc|x", "Q|ab|zz", "x", "abc | x"]))], [])
            if c < 0.6:
                return ("fn", "in", [("hdr", r.choice(NUMH)), ("str", r.choice(["1|5|10", "0|2|3", "9"]))], [])
            # mixed option sets: literal lists, other headers of the line, string variables
            opts = []
            for _ in range(r.randint(1, 3)):
                k = r.random()
                if k < 0.35:
                    opts.append(("str", r.choice(["abc|x", "Q|ab|zz", "x", "zz"])))
                elif k < 0.8 or not self.svars:
                    opts.append(("hdr", r.choice(STRH + ["a", "b"])))
                else:
                    opts.append(("var", r.choice(self.svars), None))
            return ("fn", "in", [("hdr", r.choice(STRH + ["a"]))] + opts, [])
        if f in ("empty", "exists"):
            return ("fn", f, [("hdr", r.choice(ALLH + ["3", "4"]))], [])
        if f in ("all", "missing"):
            args = [("hdr", r.choice(ALLH)), ("hdr", r.choice(ALLH))]
            if r.random() < 0.3:
                args.append(("hdr", r.choice(ALLH + ["A"])))
            return ("fn", f, args, [])
        if f == "starts_with":
            return ("fn", "starts_with", [self.strv(d - 1, term_ok=False), ("str", r.choice(["a", "ab", "Q", "x"]))], [])
        if f == "eqn":
            left = self.num(d - 1)
            if left[0] == "int":
                left = ("hdr", "a")
            return ("eq", left, ("int", r.choice(INT_TERMS)))
        if f == "eqnn":
            left = self.num(d - 1)
            if left[0] == "int":
                left = ("hdr", "b")
            return ("eq", left, self.num(d - 1))
        if f == "eqs":
            return ("eq", self.strv(d - 1, term_ok=False), self.strv(d - 1))
        raise AssertionError(f)

    # ---- components
    def fresh(self, prefix):
        self.counter += 1
        return f"{prefix}{self.counter}"

    def assignment(self, quals=(), allow_count=True):
        r = self.r
        c = r.random()
        if not allow_count and c >= 0.8:
            c = r.random() * 0.8
        tracking = None
        if c < 0.45:
            name = self.fresh("n")
            val = self.num(2)
            kind = "n"
        elif c < 0.8:
            name = self.fresh("s")
            val = self.strv(2)
            kind = "s"
        else:
            name = self.fresh("n")
            val = ("fn", "count", [], [])
            kind = "n"
        if r.random() < 0.06:
            if r.random() < 0.5:
                name, kind, val = self.fresh("s"), "s", ("fn", "header_name", [("int", r.choice([0, 1, 2, 3, 6]))], [])
            else:
                name, kind, val = self.fresh("n"), "n", ("fn", "header_index", [("str", r.choice(["a", "b", "d", "zz"]))], [])
        if r.random() < 0.15 and val[1:2] != ("count",):
            tracking = r.choice(["k1", "k2"])
        node = ("assign", name, tracking, list(quals), val)
        return node, name, kind, tracking

    def note_var(self, name, kind, tracking):
        if tracking:
            return
        (self.nvars if kind == "n" else self.svars).append(name)

    def aggregate(self, quals=()):
        """a side-effecting aggregate function used as a component of its own"""
        r = self.r
        f = r.choice(["tally", "sum", "counter", "push", "push", "push_distinct", "first", "every", "subtotal", "pop", "stackops", "countv"])
        if f == "countv":
            # count(<bool expr>): a tally of True/False kept under the function's name, keyed by the bool itself
            name = self.fresh("cn")
            self.countvars.append(name)
            return ("fn", "count", [self.boolv(1)], [name])
        q = list(quals)
        if f in ("first", "every", "pop", "stackops"):
            # vote-bearing or value-consuming: onmatch would make their own vote part of "the rest" (undefined order)
            q = [x for x in q if x != "onmatch"]
        if f == "tally":
            hs = [("hdr", r.choice(STRH + NUMH))]
            if r.random() < 0.35:
                # several values: each under its own name plus the pipe-joined combination under the tally's name
                hs = [("hdr", h) for h in r.sample(STRH + NUMH, r.choice([2, 2, 3]))]
                if r.random() < 0.5:
                    q = [self.fresh("tl")] + q
            return ("fn", "tally", hs, q)
        if f == "sum":
            return ("fn", "sum", [r.choice([("hdr", "a"), ("hdr", "b"), self.num(1)])], [self.fresh("sm")] + q)
        if f == "counter":
            a = [] if r.random() < 0.6 else [("int", r.choice([1, 2, 5, 0, 0]))]
            return ("fn", "counter", a, [self.fresh("ct")] + q)
        if f in ("push", "push_distinct"):
            if not self.stacks or r.random() < 0.5:
                self.stacks.append(self.fresh("st"))
            return ("fn", f, [("str", r.choice(self.stacks)), r.choice([("hdr", r.choice(ALLH)), self.num(1), self.strv(1)])], q)
        if f == "first":
            return ("fn", "first", [("hdr", r.choice(STRH + NUMH))], q)
        if f == "every":
            return ("fn", "every", [("hdr", r.choice(STRH + NUMH)), ("int", r.choice([2, 3]))], q)
        if f == "subtotal":
            return ("fn", "subtotal", [("hdr", r.choice(STRH)), ("hdr", r.choice(NUMH))], [self.fresh("sb")] + q)
        if f in ("pop", "stackops") and (not self.stacks or r.random() < 0.2):
            # reading a stack before anything was pushed to it (a later component may push to it)
            self.stacks.append(self.fresh("st"))
        if f == "pop":
            name = self.fresh("n")
            return ("assign", name, None, q, ("fn", "pop", [("str", r.choice(self.stacks))], []))
        if f == "stackops":
            name = self.fresh("n")
            g = r.choice(["peek", "peek_size"])
            a = [("str", r.choice(self.stacks))] + ([("int", r.choice([0, 1, 2]))] if g == "peek" else [])
            return ("assign", name, None, q, ("fn", g, a, []))
        raise AssertionError(f)

    def program(self, ncomp=None, scan=None):
        r = self.r
        f = self.f
        n = ncomp or r.randint(1, 6 if "wide" in f else 5)
        comps = []
        mode = "OR" if ("or" in f and r.random() < 0.25) else "AND"
        use_onmatch = "onmatch" in f and mode == "AND"
        for i in range(n):
            c = r.random()
            onm = ["onmatch"] if (use_onmatch and r.random() < 0.2) else []
            if "nested-onmatch" in f and use_onmatch and i == 0 and r.random() < 0.25:
                name = self.fresh("n")
                comps.append(("assign", name, None, [], ("fn", "sum", [r.choice([("hdr", "a"), ("hdr", "b")])], [self.fresh("sm"), "onmatch"])))
                use_onmatch = False  # keep it the only onmatch-dependent component of the program
            elif "assign" in f and c < 0.22:
                node, name, kind, tr = self.assignment(onm)
                comps.append(node)
                implicit_onmatch = node[4][0] == "fn" and node[4][1] == "count"
                if not onm and not implicit_onmatch:
                    self.note_var(name, kind, tr)
            elif "assign" in f and c < 0.32:
                if r.random() < 0.25:
                    # put(): the dynamic form of an assignment, as the action of a '->'
                    if r.random() < 0.6:
                        name, args, kind = self.fresh("n"), [("int", r.choice(INT_TERMS))], "n"
                    else:
                        name, args, kind = self.fresh("s"), [("str", r.choice(STR_TERMS))], "s"
                    tr = r.choice([None, None, "k1"])
                    comps.append(("when", self.boolv(2), ("fn", "put", [("str", name)] + ([("str", tr)] if tr else []) + args, [])))
                    continue
                node, name, kind, tr = self.assignment(allow_count=False)
                comps.append(("when", self.boolv(2), node))
            elif "agg" in f and c < 0.5:
                comps.append(self.aggregate(onm))
            elif "agg" in f and c < 0.56:
                comps.append(("when", self.boolv(2), self.aggregate()))
            elif "control" in f and c < 0.66:
                comps.append(self.control())
            elif "fail" in f and c < 0.72:
                comps.append(self.failform())
            elif "print" in f and c < 0.82:
                comps.append(self.printc(onm))
            else:
                comps.append(self.boolv(3))
        if "rewrite" in f and r.random() < 0.3:
            # line-rewriting / projecting functions (only used by relational checks: no reference semantics needed)
            for _ in range(r.choice([1, 1, 2])):
                k = r.choice(["collect", "collect", "collecti", "replace", "append", "append-later", "reset_headers", "reset-then-append", "reset-then-append", "collect+print_line", "print_line"])
                at = ("eq", ("fn", "line_number", [], ["nocontrib"]), ("int", r.choice([1, 2, 3, 4])))
                if k == "collect":
                    node = ("fn", "collect", [("hdr", h) for h in r.sample(["a", "b", "c", "d"], r.randint(1, 3))], [])
                elif k == "print_line":
                    node = ("fn", "print_line", [], [])
                elif k == "collect+print_line":
                    # print_line() prints the line as collect(...) will keep it
                    comps.insert(r.randint(0, len(comps)), ("fn", "collect", [("hdr", h) for h in r.sample(["a", "b", "c", "d"], r.randint(1, 3))], []))
                    node = ("fn", "print_line", [], [])
                elif k == "collecti":
                    node = ("fn", "collect", [("int", i) for i in sorted(r.sample([0, 1, 2, 3, 4], r.randint(1, 3)))], [])
                elif k == "replace":
                    node = ("fn", "replace", [("hdr", r.choice(["a", "c", "d"])), r.choice([("str", "zz"), ("fn", "line_number", [], [])])], [])
                elif k == "append":
                    node = ("fn", "append", [("str", "extra_h"), r.choice([("fn", "line_number", [], []), ("str", "x")])], [])
                elif k == "reset-then-append":
                    i_ = r.choice([0, 1, 2])
                    comps.insert(r.randint(0, len(comps)), ("when", ("eq", ("fn", "line_number", [], ["nocontrib"]), ("int", i_)), ("fn", "reset_headers", [], [])))
                    node = ("when", ("eq", ("fn", "line_number", [], ["nocontrib"]), ("int", i_ + r.choice([1, 2, 3]))), ("fn", "append", [("str", "late_h"), ("str", "y")], []))
                elif k == "append-later":
                    node = ("when", at, ("fn", "append", [("str", "late_h"), ("str", "y")], []))
                else:
                    node = ("when", at, ("fn", "reset_headers", [], []))
                comps.insert(r.randint(0, len(comps)), node)
        if "control" in f and r.random() < 0.25 and mode == "AND":
            comps.append(("when", ("fn", "last", [], []), r.choice([self.printc([]), ("fn", "push", [("str", "L"), ("fn", "line_number", [], [])], [])])))
        return {"scan": scan or self.scan(), "comps": comps, "mode": mode}

    def control(self):
        r = self.r
        k = r.choice(["stop", "skip", "advance", "stopw", "skipw"])
        if k == "stop":
            return ("fn", "stop", [self.boolv(2)], [])
        if k == "skip":
            return ("fn", "skip", [self.boolv(2)], [])
        if k == "advance":
            return ("when", self.boolv(2), ("fn", "advance", [("int", r.choice([1, 2, 3]))], []))
        if k == "stopw":
            return ("when", self.boolv(2), ("fn", "stop", [], []))
        cond = self.boolv(2)
        # a quarter of the guarded skips carry 'once' (decided from the condition's text: no extra draw from the stream);
        # at most one per program, because identical components share their internal once-variable
        once = zlib.crc32(repr(cond).encode()) % 4 == 0 and not getattr(self, "_once_skip", False)
        if once:
            self._once_skip = True
        return ("when", cond, ("fn", "skip", [], ["once"] if once else []))

    def failform(self):
        r = self.r
        k = r.choice(["when", "when", "fas", "valid", "failed"])
        if k == "when":
            return ("when", self.boolv(2), ("fn", "fail", [], []))
        if k == "fas":
            return ("fn", "fail_and_stop", [self.boolv(2)], [])
        if k == "valid":
            return ("assign", self.fresh("v"), None, [], ("fn", "valid", [], []))
        return ("when", ("fn", "failed", [], []), ("fn", "push", [("str", "fl"), ("fn", "line_number", [], [])], []))

    def printc(self, quals=()):
        r = self.r
        refs = ["$.csvpath.line_number", "$.csvpath.count_matches", "$.csvpath.count_scans", "$.headers.a", "$.headers.c", "$.headers.1"]
        refs += [f"$.variables.{v}" for v in (self.nvars + self.svars)[:3]]
        parts = []
        for _ in range(r.randint(1, 3)):
            parts.append(r.choice(["line ", "v=", "x ", "at: "]))
            parts.append(r.choice(refs))
            parts.append(r.choice([" ", " ;", " end"]))
        q = list(quals)
        if r.random() < 0.15:
            q.append("once")
        return ("print", "".join(parts).strip(), q)

    def scan(self):
        r = self.r
        c = r.random()
        if c < 0.5:
            return "1*"
        if c < 0.58:
            return "*"
        if c < 0.7:
            return f"{r.randint(1, 3)}*"
        if c < 0.85:
            a = r.randint(0, 3) if r.random() < 0.2 else r.randint(1, 3)
            return f"{a}-{a + r.randint(1, 5)}"
        a = r.randint(1, 2)
        b = a + r.randint(2, 3)
        return f"{a}+{b}-{b + r.randint(1, 2)}"


# ------------------------------------------------------------------ data files for programs


def data_rows(r, header_prob=0.85, nmax=8):
    rows = []
    twin = r.random() < 0.15  # a fifth column whose header differs from 'a' only in capitalisation
    if r.random() < header_prob:
        rows.append(["a", "b", "c", "d"] + (["A"] if twin else []))
    else:
        twin = False
    nums = ["0", "1", "2", "3", "5", "9", "10", "11", "100", "7", "12"]
    for i in range(r.randint(1, nmax)):
        x = r.random()
        if x < 0.1:
            rows.append([])
            continue
        a = r.choice(nums) if r.random() < 0.94 else r.choice(["", "3.5", "x1", " 4 ", "3.5"])
        b = r.choice(nums) if r.random() < 0.94 else r.choice(["", "2.5", "-1", "-1"])
        c = r.choice(["abc", "x", "Q", "ab", " x ", "ABC", "zz", "b c", "abc", "x"]) if r.random() < 0.96 else r.choice(["", "", " ", "   "])
        d = r.choice(["abc", "q", "b c", "X", "x"]) if r.random() < 0.96 else r.choice(["", "", "nan", "None"])
        row = [a, b, c, d] + ([r.choice(["41", "42", "77"])] if twin else [])
        y = r.random()
        if y < 0.05:
            row = row[: r.choice([1, 2, 3])]
        elif y < 0.14:
            row = row + ["extra"]
        rows.append(row)
    if r.random() < 0.12:
        rows.append([])
    return rows


def rows_to_text(rows):
    import csv
    import io

    b = io.StringIO(newline="")
    w = csv.writer(b, lineterminator="\n")
    for row in rows:
        w.writerow(row)
    return b.getvalue()


def index_headers(n):
    """replace header names a,b,c,d by their indexes (for files without a header row)"""
    if isinstance(n, (list, tuple)):
        if len(n) >= 2 and n[0] == "hdr" and n[1] in ALLH:
            return type(n)(["hdr", str(ALLH.index(n[1]))] + list(n[2:]))
        if len(n) >= 1 and n[0] == "print":
            t = n[1]
            for i, h in enumerate(ALLH):
                t = t.replace(f"$.headers.{h}", f"$.headers.{i}")
            return type(n)(["print", t] + list(n[2:]))
        return type(n)(index_headers(x) for x in n)
    return n


def random_mode_comment(r, p=0.5, allow=("return-mode", "unmatched-mode", "print-mode", "validation-mode")):
    """a mode-setting outer comment body (may be empty)"""
    if r.random() > p:
        return ""
    out = ""
    if "return-mode" in allow and r.random() < 0.4:
        out += "return-mode: " + r.choice(["no-matches", "no-matches", "matches"]) + " "
    if "unmatched-mode" in allow and r.random() < 0.5:
        out += "unmatched-mode: " + r.choice(["keep", "keep", "no-keep"]) + " "
    if "print-mode" in allow and r.random() < 0.2:
        out += "print-mode: " + r.choice(["default", "no-default"]) + " "
    if "run-mode" in allow and r.random() < 0.15:
        out += "run-mode: " + r.choice(["no-run", "no-run", "run"]) + " "
    if "validation-mode" in allow and r.random() < 0.15:
        out += "validation-mode: " + r.choice(["no-raise, no-stop", "print, no-raise", "no-print, no-raise"]) + " "
    return out


HEADERLESS_SCANS = ["*", "*", "0*", "0-5", "0-3", "0+2-6"]


def gen_case(r, features, p_headerless=0.2, **kw):
    """(program, rows): usually a file with a header row and a scan that skips it; in the headerless stratum the
    file has no header row, the scan starts at line 0 and headers are addressed by index"""
    g = Gen(r, features)
    if r.random() < p_headerless:
        prog = g.program(scan=r.choice(HEADERLESS_SCANS), **kw)
        prog["comps"] = [index_headers(c) for c in prog["comps"]]
        return prog, data_rows(r, header_prob=0.0)
    return g.program(**kw), data_rows(r)

"""CSV generators. All randomness comes from the random.Random passed in."""
import csv
import io

PALETTE_TEXT = list("abcXYZ019 ") + [",", ";", "|", "\t", '"', "'", "\n", "\\", "#", "$", "~", "[", "]", "=", "é", "ß", "漢", "字", "😀", "́", " ", "​", "-", ".", "`", "%", "(", ")"]
WORDS = ["", " ", "a", "abc", " x ", "0", "10", "-3.5", "true", "None", "nan", "é漢", 'say "hi"', "it's", "a,b", "x;y", "p|q", "t\tab", "two\nlines", "  lead", "trail  ", "#h", "$ref", "`tick`"]


def cell(r):
    c = r.random()
    if c < 0.35:
        return r.choice(WORDS)
    n = r.choice([0, 1, 1, 2, 3, 5, 9])
    return "".join(r.choice(PALETTE_TEXT) for _ in range(n))


def name(r, i):
    base = r.choice(["h", "col", "Name", "x_y", "A1", "last-name", "zip", "user.email", "Acct No."])
    s = f"{base}{i}"
    return s


def arbitrary(r, named_headers=False):
    """-> (records, dialect). records: list of list[str]; [] is a blank record."""
    delim = r.choice([",", ",", ";", "|", "\t"])
    quote = r.choice(['"', '"', "'"])
    nrec = r.choice([0, 1, 2, 3, 4, 6, 8, 12]) if not named_headers else r.choice([1, 2, 3, 5, 8, 12])
    width = r.choice([1, 2, 3, 4, 6])
    recs = []
    for i in range(nrec):
        if r.random() < 0.15:
            recs.append([])
            continue
        w = width
        x = r.random()
        if x < 0.15:
            w = r.randint(1, width)
        elif x < 0.25:
            w = width + r.randint(1, 2)
        recs.append([cell(r) for _ in range(max(1, min(6, w)))])
    if named_headers:
        hdr = [name(r, i) for i in range(width)]
        if width >= 2 and r.random() < 0.25:
            # two header names that differ only in capitalisation (each still names its own column)
            i, j = sorted(r.sample(range(width), 2))
            v = r.choice([hdr[i].upper(), hdr[i].lower(), hdr[i].swapcase()])
            if v != hdr[i]:
                hdr[j] = v
        if r.random() < 0.3:
            hdr = [(" " + h + " ") if r.random() < 0.5 else h for h in hdr]
        pos = 0
        if recs and r.random() < 0.25:
            # leading blank records before the header row
            recs = [[]] * r.randint(1, 2) + recs
            pos = 0
        # first non-blank record becomes the header row
        out = []
        placed = False
        for rec in recs:
            if not placed and len(rec) > 0:
                out.append(hdr)
                placed = True
            out.append(rec)
        if not placed:
            out.append(hdr)
        recs = out
    term = r.choice(["\n", "\r\n"])
    return recs, {"delimiter": delim, "quotechar": quote, "lineterminator": term}


def to_bytes(recs, dialect):
    buf = io.StringIO(newline="")
    w = csv.writer(buf, delimiter=dialect["delimiter"], quotechar=dialect["quotechar"], lineterminator=dialect["lineterminator"])
    for rec in recs:
        w.writerow(rec)
    return buf.getvalue().encode("utf-8")


def parse_bytes(data, dialect):
    """the trusted reading of the bytes: Python's csv module with the same dialect"""
    text = data.decode("utf-8")
    return list(csv.reader(io.StringIO(text, newline=""), delimiter=dialect["delimiter"], quotechar=dialect["quotechar"]))

"""CsvPaths-level harness: a sandbox (inputs/, archive/, cache/ under the worker's
scratch cwd), helpers to register files and groups, run the six run methods and
read back results and the archive."""
import csv
import hashlib
import io
import json
import os
import random
import shutil

from . import env, lang

METHODS = ["collect_paths", "fast_forward_paths", "next_paths", "collect_by_line", "fast_forward_by_line", "next_by_line"]
SERIAL = METHODS[:3]
BYLINE = METHODS[3:]


def reset_sandbox(keep_inputs=False):
    for d in ["archive", "cache", "transfers"] + ([] if keep_inputs else ["inputs", "srcfiles"]):
        shutil.rmtree(d, ignore_errors=True)
    os.makedirs("srcfiles", exist_ok=True)


def add_file(cs, name, rows=None, data=None, srcname=None):
    srcname = srcname or f"{name}.csv"
    p = os.path.join("srcfiles", srcname)
    if data is None:
        data = lang.rows_to_text(rows).encode("utf-8")
    with open(p, "wb") as f:
        f.write(data)
    cs.file_manager.add_named_file(name=name, path=p)
    return p


def member_text(prog, ident=None, extra_comment=""):
    body = f"$[{prog['scan']}][{' '.join(lang.txt(c) for c in prog['comps'])}]"
    meta = ""
    if ident is not None:
        meta += f"id: {ident} "
    if prog.get("mode") == "OR":
        meta += "logic-mode: OR "
    meta += prog.get("comment", "")
    meta += extra_comment
    return (f"~ {meta}~ " if meta else "") + body


def run_method(cs, method, pathsname, filename, **kw):
    """-> (returned lines or None, exception or None)"""
    lines, exc = None, None
    try:
        fn = getattr(cs, method)
        if method.startswith("next"):
            lines = [list(ln) for ln in fn(pathsname=pathsname, filename=filename, **kw)]
        else:
            lines = fn(pathsname=pathsname, filename=filename, **kw)
    except Exception as e:  # noqa
        exc = e
    return lines, exc


def sha(path):
    with open(path, "rb") as f:
        return hashlib.sha256(f.read()).hexdigest()


def tree(root):
    out = {}
    for dp, dn, fn in os.walk(root):
        for f in fn:
            p = os.path.join(dp, f)
            out[os.path.relpath(p, root)] = sha(p)
    return out


def read_json(p):
    with open(p) as f:
        return json.load(f)


def read_csv(p):
    with open(p, newline="") as f:
        return list(csv.reader(f))


def run_dirs(pathsname):
    base = os.path.join("archive", pathsname)
    if not os.path.isdir(base):
        return []
    return sorted(d for d in os.listdir(base) if os.path.isdir(os.path.join(base, d)))


# ------------------------------------------------------------------ C04: aggregation of verdicts
def standalone_verdict(prog, rows, pol, fname="sv.csv"):
    with open(fname, "w", newline="") as f:
        f.write(lang.rows_to_text(rows))
    c, cap = env.new_csvpath(pol)
    try:
        c.fast_forward(lang.program_text(prog, fname))
    except Exception as e:  # noqa
        return None
    return c.is_valid


_FAIL_ALL_EVENTS = []


def install_fail_all_hook():
    """records (csvpath object, physical line) whenever fail_all() is executed"""
    from csvpath.matching.functions.validity.fail import FailAll

    if getattr(FailAll, "_vfy", False):
        return
    orig = FailAll._decide_match

    def _decide_match(self, skip=None):
        cp = self.matcher.csvpath
        _FAIL_ALL_EVENTS.append((cp, cp.line_monitor.physical_line_number))
        return orig(self, skip=skip)

    FailAll._decide_match = _decide_match
    FailAll._vfy = True


def validity_group_case(seed, shard, i, make_case):
    r = random.Random(f"{seed}:C04g:{shard}:{i}")
    n = r.randint(1, 4)
    rows = None
    members = []
    for j in range(n):
        prog, rws, _ = make_case(seed, f"g{shard}", i * 10 + j)
        if rows is None:
            rows = rws
        prog = lang.tolist(prog)
        if r.random() < 0.12:
            prog["comment"] = "run-mode: no-run "  # a member that is switched off is still a valid member
        members.append(prog)
    pol = r.choice([["collect", "print"], ["collect", "fail"], ["collect", "stop"], ["collect", "stop", "fail"], ["fail", "print"], ["stop", "print"], ["collect", "stop", "fail", "print"]])
    cps_pol = None
    if r.random() < 0.15:
        # a member that finishes early (bounded scan, stop()) next to one that calls fail_all() later in the file
        early = r.choice([
            {"scan": "0-1", "comps": [["fn", "yes", [], []]], "mode": "AND"},
            {"scan": "*", "comps": [["fn", "push", [["str", "e"], ["hdr", "0"]], []], ["fn", "stop", [["eq", ["fn", "line_number", [], []], ["int", 1]]], []]], "mode": "AND"},
        ])
        judge = {"scan": "*", "comps": [["when", ["eq", ["hdr", "1"], ["str", "F"]], ["fn", "fail_all", [], []]]], "mode": "AND"}
        members = members[: r.randint(0, 2)] + [early, judge]
        r.shuffle(members)
    elif r.random() < 0.25:
        # a member that cannot even be built (unknown function): it fails outside match-component evaluation, at the
        # CsvPaths level; under a CsvPaths-level policy without 'raise' the run goes on and the verdicts must still agree
        if r.random() < 0.5:
            # ... next to members that nothing can fail: the broken member alone decides the group's verdict
            members = [{"scan": r.choice(["*", "1*", "0-2"]), "comps": [["fn", "yes", [], []]], "mode": "AND"} for _ in range(r.randint(1, 2))]
        members.insert(r.randint(0, len(members)), {"scan": "*", "comps": [["fn", r.choice(["nosuchfunction", "yess"]), [], []]], "mode": "AND"})
        cps_pol = r.choice([["collect", "fail"], ["collect", "print"], ["collect", "fail", "print"]])
    method = METHODS[i % len(METHODS)]
    if r.random() < 0.04:
        rows = []  # an empty data file: nothing can fail it
    elif not any(len(x) for x in rows):
        rows = rows + [["r9", "F", "n", "5"]]
    return {"group": members, "rows": rows, "policy": pol, "method": method, "csvpaths_policy": cps_pol}


def check_validity_group(case, agg):
    members, rows, pol, method = case["group"], case["rows"], case["policy"], case["method"]
    reset_sandbox()
    env.write_config(".", csvpath_policy=pol, csvpaths_policy=case.get("csvpaths_policy"))
    try:
        cs = env.new_csvpaths()
        add_file(cs, "data", rows)
        texts = [member_text(p, ident=f"m{j}") for j, p in enumerate(members)]
        cs.paths_manager.add_named_paths(name="grp", paths=texts)
        install_fail_all_hook()
        del _FAIL_ALL_EVENTS[:]
        lines, exc = run_method(cs, method, "grp", "data")
        fail_all_events = list(_FAIL_ALL_EVENTS)
        if exc is not None:
            return "exception", {"method": method, "exc": f"{type(exc).__name__}: {str(exc)[:300]}", "members": texts, "rows": rows, "policy": pol}
        results = cs.results_manager.get_named_results("grp")
        verdicts = [r.csvpath.is_valid for r in results]
        witness = {"method": method, "members": texts, "rows": rows, "policy": pol, "member_verdicts": verdicts}
        if method in BYLINE and fail_all_events and len(results) == len(members) and case.get("csvpaths_policy") is None:
            # (not asked of groups with an unbuildable member: the members after it are never visited - observation O8)
            # fail_all(): "fails this CsvPath instance and all the CsvPath instances that may be siblings in the run".
            # The least any breadth-first implementation of that does: the members placed after the caller are visited
            # on that very line with the signal up - stopped or not, they end the run failed.
            order = [r_.csvpath for r_ in results]
            for cp, ln in fail_all_events:
                j = next((k for k, c_ in enumerate(order) if c_ is cp), None)
                if j is None:
                    continue
                for k in range(j + 1, len(order)):
                    if order[k].will_run is True and verdicts[k] is not False:
                        witness["fail_all"] = {"executed_by_member": j, "on_line": ln, "sibling_still_valid": k, "sibling_stopped": order[k].stopped}
                        return "fail_all-does-not-reach-a-later-sibling", witness
        if len(results) != len(members):
            witness["n_results"] = len(results)
            return "member-count", witness
        # members' own verdicts are what a standalone run gives (no cross-path signals in these programs). Not asked of
        # groups with an unbuildable member: in breadth-first runs its per-line failure makes the members after it skip
        # every line (observation O8 in DESIGN.md) - the conjunction obligations below are still checked for them.
        uses_fail_all = any("fail_all" in member_text(p) for p in members)
        for j, p in enumerate(members if case.get("csvpaths_policy") is None else []):
            sv = standalone_verdict(p, rows, pol)
            if uses_fail_all and sv is True and verdicts[j] is False:
                continue  # failed by a sibling's fail_all(): allowed (only a member that fails itself MUST be False)
            if sv is not None and sv != verdicts[j]:
                witness["standalone"] = (j, sv)
                return "member-verdict-differs-from-standalone", witness
        want = all(verdicts)
        got = cs.results_manager.is_valid("grp")
        if got != want:
            witness["results_manager.is_valid"] = got
            return "results_manager.is_valid", witness
        rd = run_dirs("grp")
        if len(rd) != 1:
            witness["run_dirs"] = rd
            return "run-dirs", witness
        man = read_json(os.path.join("archive", "grp", rd[0], "manifest.json"))
        if man.get("all_valid") != want:
            witness["manifest.all_valid"] = man.get("all_valid")
            return "run-manifest-all_valid", witness
        for j, r_ in enumerate(results):
            mm = read_json(os.path.join("archive", "grp", rd[0], f"m{j}", "manifest.json"))
            if mm.get("valid") != verdicts[j]:
                witness["member_manifest"] = (j, mm.get("valid"))
                return "member-manifest-valid", witness
            if r_.is_valid != verdicts[j]:
                witness["Result.is_valid"] = (j, r_.is_valid)
                return "Result.is_valid", witness
        agg.count("group_members", len(members))
        return None
    finally:
        env.write_config(".")


def validity_groups(spec, agg, make_case):
    for i in range(spec.get("groups", 0)):
        case = validity_group_case(spec["seed"], spec["shard"], i, make_case)
        res = check_validity_group(case, agg)
        shape = "G|" + case["method"] + "|" + "||".join(lang.prog_shape(p) for p in case["group"]) + "|" + ",".join(case["policy"])
        if res is None:
            agg.held(shape, True, sample={"method": case["method"], "members": [member_text(p, f"m{j}") for j, p in enumerate(case["group"])], "policy": case["policy"]})
            agg.count("groups_held")
        else:
            agg.violation("group:" + res[0], case, res[1], shape)


def replay_validity_group(case, agg):
    res = check_validity_group(case, agg)
    if res is None:
        agg.held("replay", True)
    else:
        agg.violation("group:" + res[0], case, res[1])

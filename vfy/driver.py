"""Parent process of a check: snapshot the repo, fan shards out to worker
subprocesses, merge what the monitors observed, write evidence, give the verdict.

exit 0  held on everything explored (KNOWN-FINDING lines allowed)
exit 1  violation (VIOLATION property=<id> replay=<path> per class)
exit 2  inconclusive (worker crash/timeout, deciding monitor never reached, ...)
"""
import argparse
import importlib
import json
import os
import shutil
import subprocess
import sys
import tempfile
import time

from . import agg as aggmod

VERIF = os.path.dirname(os.path.dirname(os.path.abspath(__file__)))
# self-validation runs (VERIF_REPO pointing at a mutated copy) must not overwrite real evidence
SCRATCH_RUN = os.path.realpath(os.environ.get("VERIF_REPO", "/repo")) != "/repo"
OUT = os.path.join(VERIF, ".work", "selftest") if SCRATCH_RUN else VERIF
PY = "/venv/bin/python"
NPROC = int(os.environ.get("VERIF_NPROC", "16"))


def load_known():
    p = os.path.join(VERIF, "known_findings.json")
    if not os.path.exists(p):
        return {}
    with open(p) as f:
        d = json.load(f)
    return {e["id"]: e for e in d.get("findings", [])}


def snapshot(scratch):
    repo = os.environ.get("VERIF_REPO", "/repo")
    src = os.path.join(scratch, "src")
    os.makedirs(src)
    subprocess.run(
        ["rsync", "-a", "--delete", "--exclude", "__pycache__", os.path.join(repo, "csvpath"), src + "/"],
        check=True,
    )
    # docs are needed by nothing at run time; tests' resources are not used either
    return src, repo


def worker_env(src):
    env = dict(os.environ)
    env["PYTHONPATH"] = os.pathsep.join([src, VERIF, os.path.join(VERIF, ".deps")])
    env["PYTHONHASHSEED"] = "0"
    env["CSVPATH_VERIF"] = "1"
    env["PYTHONWARNINGS"] = "ignore"
    env.pop("CSVPATH_CONFIG_PATH", None)
    return env


def warm(src, scratch, env):
    """settle PLY's parsetab.py and byte-code before the parallel workers start"""
    w = os.path.join(scratch, "warm")
    os.makedirs(w)
    code = (
        "from vfy import env; env.setup_scratch('.');"
        "from csvpath import CsvPath, CsvPaths;"
        "from csvpath.scanning.scanner import Scanner; Scanner()"
    )
    p = subprocess.run([PY, "-c", code], cwd=w, env=env, stdout=subprocess.PIPE, stderr=subprocess.STDOUT, text=True)
    return p.returncode, p.stdout[-2000:]


def _has_violation(op):
    try:
        with open(op) as f:
            return bool(json.load(f).get("violations"))
    except Exception:  # noqa
        return False


def run_workers(prop, specs, scratch, env, mode="shard"):
    outs, errs = [], []
    pending = list(enumerate(specs))
    running = []
    t0 = time.time()
    while pending or running:
        while pending and len(running) < NPROC:
            i, spec = pending.pop(0)
            wdir = os.path.join(scratch, f"w{i}")
            os.makedirs(wdir, exist_ok=True)
            sp = os.path.join(wdir, "spec.json")
            op = os.path.join(wdir, "out.json")
            with open(sp, "w") as f:
                json.dump(spec, f)
            logf = open(os.path.join(wdir, "log.txt"), "w")
            p = subprocess.Popen(
                [PY, "-m", "vfy.worker", prop, mode, sp, op], cwd=wdir, env=env, stdout=logf, stderr=subprocess.STDOUT
            )
            running.append((p, i, op, logf, time.time(), spec.get("timeout", 3600), wdir))
        still = []
        for p, i, op, logf, ts, to, wdir in running:
            rc = p.poll()
            if rc is None:
                if time.time() - ts > to:
                    p.kill()
                    p.wait()
                    logf.close()
                    errs.append(f"shard {i}: watchdog timeout after {to}s")
                else:
                    still.append((p, i, op, logf, ts, to, wdir))
                continue
            logf.close()
            if rc != 0 or not os.path.exists(op):
                with open(os.path.join(wdir, "log.txt")) as f:
                    tail = f.read()[-1500:]
                errs.append(f"shard {i}: worker exit {rc}: {tail}")
            else:
                outs.append(op)
                if aggmod.FAIL_FAST and mode == "shard" and _has_violation(op):
                    # self-validation: one violating shard decides; do not finish the workload
                    for q in still + [r for r in running if r[0].poll() is None and r not in still]:
                        try:
                            q[0].kill()
                            q[0].wait()
                            q[3].close()
                        except Exception:  # noqa
                            pass
                    return outs, errs, time.time() - t0
        running = still
        if running:
            time.sleep(0.05)
    return outs, errs, time.time() - t0


def main(argv=None):
    ap = argparse.ArgumentParser()
    ap.add_argument("prop")
    ap.add_argument("--tier", default=os.environ.get("VERIF_TIER", "quick"), choices=["quick", "thorough"])
    ap.add_argument("--replay")
    a = ap.parse_args(argv)
    prop = a.prop
    seed = int(os.environ.get("VERIF_SEED", "0"))
    mod = importlib.import_module(f"vfy.props.{prop.lower()}")
    t0 = time.time()
    tmpbase = os.environ.get("TMPDIR", "/tmp")
    scratch = tempfile.mkdtemp(prefix=f"vfy-{prop}-", dir=tmpbase)
    try:
        src, repo = snapshot(scratch)
        env = worker_env(src)
        rc, out = warm(src, scratch, env)
        if rc != 0:
            print(f"INCONCLUSIVE property={prop} reason=cannot import csvpath from {repo}: {out}")
            write_evidence(prop, mod, a.tier, seed, None, time.time() - t0, inconclusive="import failed")
            return 2
        if a.replay:
            with open(a.replay) as f:
                rp = json.load(f)
            outs, errs, _ = run_workers(prop, [{"case": rp["case"], "cls": rp.get("cls")}], scratch, env, mode="replay")
            if errs:
                print(f"INCONCLUSIVE property={prop} reason={errs[0][:400]}")
                return 2
            m = aggmod.merge(outs)
            for v in m["violations"]:
                print(f"REPLAY violation class={v['cls']}")
                print(json.dumps(v["detail"], indent=1, default=str)[:4000])
            if m["violations"]:
                print(f"VIOLATION property={prop} replay={a.replay}")
                return 1
            for k in m["known"]:
                print(f"REPLAY known finding {k}")
            print(f"REPLAY property={prop}: no violation on the current tree")
            return 0
        specs = mod.plan(a.tier, seed)
        for s in specs:
            s.setdefault("tier", a.tier)
            s.setdefault("seed", seed)
        outs, errs, wall = run_workers(prop, specs, scratch, env)
        m = aggmod.merge(outs)
        return conclude(prop, mod, a.tier, seed, m, errs, time.time() - t0)
    finally:
        shutil.rmtree(scratch, ignore_errors=True)
        if os.path.exists(scratch):
            # (a killed worker's child may still have been writing: try once more)
            time.sleep(1.0)
            shutil.rmtree(scratch, ignore_errors=True)


def conclude(prop, mod, tier, seed, m, errs, wall):
    known = load_known()
    c = m["counters"]
    if os.environ.get("VERIF_DUMP"):
        with open(os.environ["VERIF_DUMP"], "w") as f:
            json.dump({"violations": m["violations"], "known": m["known"]}, f, default=str)
    # ---- violations grouped by class
    by_cls = {}
    for v in m["violations"]:
        by_cls.setdefault(v["cls"], v)
    rdir = os.path.join(OUT, "replays", prop)
    lines = []
    if by_cls:
        os.makedirs(rdir, exist_ok=True)
    for cls, v in sorted(by_cls.items())[:20]:
        name = f"{cls}-{aggmod.h(json.dumps(v['case'], sort_keys=True, default=str))}.json"
        name = "".join(ch if ch.isalnum() or ch in "-_." else "_" for ch in name)
        path = os.path.join(rdir, name)
        with open(path, "w") as f:
            json.dump({"property": prop, "cls": cls, "seed": seed, "tier": tier, "case": v["case"], "detail": v["detail"]}, f, indent=1, default=str)
        lines.append(f"VIOLATION property={prop} replay={path}")
    # ---- known findings: only those listed in the committed file are suppressed
    unknown_known = []
    for kf, w in sorted(m["known"].items()):
        e = known.get(kf)
        if e and e.get("status") == "known" and (e.get("property") == prop or prop in e.get("also_affects", [])):
            print(f"KNOWN-FINDING: property={prop} {kf}: {e['what']} (hit {m['known_counts'][kf]}x, e.g. {json.dumps(w['detail'], default=str)[:300]})")
        else:
            unknown_known.append(kf)
            os.makedirs(rdir, exist_ok=True)
            path = os.path.join(rdir, f"{kf}-unlisted.json")
            with open(path, "w") as f:
                json.dump({"property": prop, "cls": kf, "seed": seed, "tier": tier, "case": w["case"], "detail": w["detail"]}, f, indent=1, default=str)
            lines.append(f"VIOLATION property={prop} replay={path}")
    nviol = len(lines)
    # ---- inconclusive conditions
    inconc = None
    if errs:
        inconc = "; ".join(e[:600] for e in errs[:3])
    else:
        for name in getattr(mod, "DECIDING", []):
            if c.get(name, 0) == 0:
                inconc = f"deciding monitor '{name}' observed nothing"
        ev = c.get("evaluations", 0)
        decided = ev - c.get("undecided", 0)
        if ev == 0:
            inconc = "no cases ran"
        elif decided / ev < getattr(mod, "MIN_DECIDED_RATIO", 0.5):
            inconc = f"only {decided}/{ev} cases decided"
        elif len(m["shapes"]) < 2:
            inconc = "fewer than 2 distinct non-trivial cases"
    write_evidence(prop, mod, tier, seed, m, wall, nviol=nviol, inconclusive=inconc)
    for ln in lines:
        print(ln)
    summary = {k: v for k, v in c.items() if not k.startswith(("viol:", "undecided:"))}
    print(f"[{prop}] tier={tier} seed={seed} wall={wall:.1f}s distinct_nontrivial={len(m['shapes'])} {json.dumps(summary, sort_keys=True)}")
    und = {k: v for k, v in c.items() if k.startswith("undecided:")}
    if und:
        print(f"[{prop}] undecided breakdown: {json.dumps(und, sort_keys=True)}")
    if nviol:
        return 1
    if inconc:
        print(f"INCONCLUSIVE property={prop} reason={inconc}")
        return 2
    print(f"[{prop}] HELD on everything explored")
    return 0


def write_evidence(prop, mod, tier, seed, m, wall, nviol=0, inconclusive=None):
    os.makedirs(os.path.join(OUT, "evidence"), exist_ok=True)
    cov = {"evaluations": 0, "distinct_nontrivial": 0, "rule": getattr(mod, "RULE", ""), "samples": []}
    if m is not None:
        c = m["counters"]
        cov.update(
            {
                "evaluations": int(c.get("evaluations", 0)),
                "distinct_nontrivial": len(m["shapes"]),
                "samples": m["samples"][:6] or [{"note": "no sample recorded"}],
                "decided": int(c.get("evaluations", 0) - c.get("undecided", 0)),
                "undecided": int(c.get("undecided", 0)),
                "held": int(c.get("held", 0)),
                "known_finding_hits": dict(m["known_counts"]),
                "monitor_counters": {k: int(v) for k, v in sorted(c.items()) if k not in ("evaluations", "held", "undecided")},
                "shards": m["shards"],
            }
        )
        if m["notes"]:
            cov["notes"] = m["notes"][:20]
        fin = getattr(mod, "finish", None)
        if fin:
            cov.update(fin(m, tier) or {})
    if inconclusive:
        cov["inconclusive"] = inconclusive
    ev = {
        "property_id": prop,
        "tier": tier,
        "seed": seed,
        "level": getattr(mod, "LEVEL", "exploration"),
        "coverage": cov,
        "assumptions": getattr(mod, "ASSUMPTIONS", []) + COMMON_ASSUMPTIONS,
        "wall_s": round(wall, 2),
        "violations": nviol,
    }
    with open(os.path.join(OUT, "evidence", f"{prop}.json"), "w") as f:
        json.dump(ev, f, indent=1, default=str)
    # the last run of each tier is also kept side by side (evidence/<id>.json is whichever ran last)
    os.makedirs(os.path.join(OUT, "evidence", "by_tier", tier), exist_ok=True)
    with open(os.path.join(OUT, "evidence", "by_tier", tier, f"{prop}.json"), "w") as f:
        json.dump(ev, f, indent=1, default=str)


COMMON_ASSUMPTIONS = [
    "checks run a snapshot of ${VERIF_REPO:-/repo}/csvpath (working tree) under /venv/bin/python 3.12",
    "lark.Lark(grammar) is memoised by grammar text inside the workers (behaviour-neutral speed-up)",
    "listener-free config/config.ini in a scratch cwd; stdlib csv/json/hashlib are trusted",
    "verdict covers only the executions this run produced (runtime monitoring)",
]

if __name__ == "__main__":
    sys.exit(main())

#!/bin/sh
# offline setup: contracts library beside the repo's interpreter, byte-compile the framework
HERE="$(cd "$(dirname "$0")" && pwd)"
cd "$HERE" || exit 1
if [ ! -d .deps/icontract ]; then
  /venv/bin/pip install --quiet --no-index --find-links /opt/veriftools/wheels --target .deps icontract jsonschema >/dev/null 2>&1 \
   || /venv/bin/pip install --no-index --find-links /opt/veriftools/wheels --target .deps icontract || exit 1
fi
/venv/bin/python -m compileall -q vfy >/dev/null 2>&1
exit 0

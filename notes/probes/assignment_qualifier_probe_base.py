import io, contextlib, warnings, itertools, collections, sys
from csvpath import CsvPath
from csvpath.matching.lark_parser import LarkParser
import lark
# memoize Lark construction for speed
_orig=lark.Lark
Q=["onmatch","latch","onchange","increase","decrease","notnone","asbool","nocontrib"]
def asbool(v):
    if v is None: return False
    if isinstance(v,str) and v.strip().lower()=="false": return False
    if isinstance(v,str) and v.strip().lower()=="true": return True
    return bool(v)
def model(quals, ys, rest):
    x=None; out=[]
    for y in ys:
        vote=True; wrote=False
        if "onmatch" in quals and not rest:
            vote=False
        else:
            blocked=False
            # latch/onchange first per code? statement: notnone, inc/dec, latch/onchange
            if "latch" in quals or "onchange" in quals:
                if x != y:
                    if x is None or "latch" not in quals:
                        # attempt write
                        if "notnone" in quals and y is None: vote=False
                        elif "increase" in quals and (not y or (x is not None and x>=y)): vote=False
                        elif "decrease" in quals and (not y or (x is not None and x<=y)): vote=False
                        else: x=y
                    else: pass
                elif "onchange" in quals: vote=False
            else:
                if "notnone" in quals and y is None: vote=False
                elif "increase" in quals and (not y or (x is not None and x>=y)): vote=False
                elif "decrease" in quals and (not y or (x is not None and x<=y)): vote=False
                else: x=y
        if "asbool" in quals and vote: vote=asbool(y)
        if "nocontrib" in quals: vote=True
        out.append((x, vote and rest))
    return out
def real(quals, ys, rest):
    with open("q.csv","w") as f:
        for y in ys: f.write("k\n" if y is None else f"k,{y}\n")
    qs="".join("."+q for q in quals)
    p=f'$q.csv[*][ @x{qs} = #1 push("xs", @x) {"yes()" if rest else "no()"} ]'
    c=CsvPath(print_default=False); c.config.csvpath_errors_policy=["collect"]
    with contextlib.redirect_stdout(io.StringIO()):
        lines=c.collect(p)
    # which lines matched: use count of returned; need per-line -> collect line numbers via #0? use line idx by adding id col
    return c.variables.get("xs"), len(lines), len(c.errors or [])
# need per-line matched flags: rewrite real to use next with line_number
def real2(quals, ys, rest):
    with open("q.csv","w") as f:
        for i,y in enumerate(ys): f.write(f"{i}\n" if y is None else f"{i},{y}\n")
    qs="".join("."+q for q in quals)
    p=f'$q.csv[*][ @x{qs} = #1 push("xs", @x) {"yes()" if rest else "no()"} ]'
    c=CsvPath(print_default=False); c.config.csvpath_errors_policy=["collect"]
    with contextlib.redirect_stdout(io.StringIO()):
        lines=c.collect(p)
    m=[str(i) in [l[0] for l in lines] for i in range(len(ys))]
    return list(zip(c.variables.get("xs"), m)), len(c.errors or [])
import random
random.seed(0)
bad=collections.Counter(); n=0; ex={}
subsets=[s for r in range(0,9) for s in itertools.combinations(Q,r)]
random.shuffle(subsets)
for quals in subsets[:int(sys.argv[1])]:
    vals=[None,1,2,3]
    if "increase" not in quals and "decrease" not in quals: vals=vals+["true","false"]
    seqs=list(itertools.product(vals,repeat=3)); random.shuffle(seqs)
    for ys in seqs[:int(sys.argv[2])]:
        for rest in (True,False):
            n+=1
            mo=model(quals,[str(y) if isinstance(y,int) else y for y in ys],rest)
            re_,errs=real2(quals,ys,rest)
            if mo!=re_ or errs:
                key=tuple(sorted(quals))
                bad[key]+=1; ex.setdefault(key,(ys,rest,mo,re_,errs))
print(n, sum(bad.values()), len(bad))
for k,v in list(bad.items())[:25]: print(k,v,ex[k])

exec(open('probe18.py').read().split("import random")[0].replace("def real2","def _real2_old"))
import copy
from csvpath import CsvPath
_orig=CsvPath._consider_line
TRACE=[]
def hooked(self,line):
    r=_orig(self,line)
    TRACE.append((self.line_monitor.physical_line_number, self.variables.get("x"), r))
    return r
CsvPath._consider_line=hooked
def real2(quals, ys, rest):
    with open("q.csv","w") as f:
        for i,y in enumerate(ys): f.write(f"{i}\n" if y is None else f"{i},{y}\n")
    qs="".join("."+q for q in quals)
    p=f'$q.csv[*][ @x{qs} = #1 {"yes()" if rest else "no()"} ]'
    c=CsvPath(print_default=False); c.config.csvpath_errors_policy=["collect"]
    TRACE.clear()
    with contextlib.redirect_stdout(io.StringIO()):
        lines=c.collect(p)
    return [(x,m) for (_,x,m) in TRACE], len(c.errors or [])
import random
random.seed(0)
bad=collections.Counter(); n=0; ex={}
subsets=[s for r in range(0,9) for s in itertools.combinations(Q,r)]
random.shuffle(subsets)
for quals in subsets[:int(sys.argv[1])]:
    vals=[None,1,2,3]
    if "increase" not in quals and "decrease" not in quals: vals=vals+["true","false"]
    seqs=list(itertools.product(vals,repeat=3)); random.shuffle(seqs)
    for ys in seqs[:int(sys.argv[2])]:
        for rest in (True,False):
            n+=1
            mo=model(quals,[str(y) if isinstance(y,int) else y for y in ys],rest)
            re_,errs=real2(quals,ys,rest)
            if mo!=re_ or errs:
                key=tuple(sorted(quals))
                bad[key]+=1; ex.setdefault(key,(ys,rest,mo,re_,errs))
print(n, sum(bad.values()), len(bad))
for k,v in list(bad.items())[:25]: print(k,v,ex[k])

import sys, os, itertools, io, contextlib
from csvpath import CsvPath
from csvpath.util.printer import TestPrinter
def run(path, policy=None):
    c = CsvPath(print_default=False)
    tp = TestPrinter(); c.add_printer(tp)
    if policy is not None:
        c.config.csvpath_errors_policy = policy
    out=io.StringIO()
    with contextlib.redirect_stdout(out):
      try:
        lines = c.collect(path)
        exc=None
      except Exception as e:
        lines=None; exc=type(e).__name__+":"+str(e)[:80]
    return dict(lines=lines and [l[0] for l in lines], valid=c.is_valid, stopped=c.stopped, sc=c.scan_count, mc=c.match_count, errs=[(e.line_count) for e in (c.errors or [])], printed=len(tp.lines), stdout=len(out.getvalue()), exc=exc)
open('b.csv','w').write("a,b\n1,2\nx,3\n4,5\ny,6\n7,8\n")
flags=["raise","collect","stop","fail","print","quiet"]
for r in range(0,7):
  for sub in itertools.combinations(flags,r):
    if r not in (0,1,2,6) : continue
    print(sub, run("$b.csv[1*][add(#a,1)]", list(sub)))

"""throw-away prototype: typed generator + reference evaluator for a small subset, differential vs real csvpath."""
import random, io, contextlib, csv, sys, collections, copy, json, math, os
import lark
_L=lark.Lark; _cache={}
class MemoLark:
    def __new__(cls, grammar, **kw):
        k=(grammar, tuple(sorted(kw.items())))
        if k not in _cache: _cache[k]=_L(grammar, **kw)
        return _cache[k]
import csvpath.matching.lark_parser as lp, csvpath.matching.util.lark_print_parser as pp
lp.Lark=MemoLark; pp.Lark=MemoLark
from csvpath import CsvPath

class Unspec(Exception): pass
class ExpErr(Exception): pass

# ---------- AST: tuples
# ('hdr',name) ('int',n) ('str',s) ('var',name) ('fn',name,[args]) ('eq',l,r) ('when',l,r) ('assign',name,quals,val)
HDRS=['a','b','c','d']
def txt(n):
    k=n[0]
    if k=='hdr': return '#'+n[1]
    if k=='int': return str(n[1])
    if k=='flt': return repr(n[1])
    if k=='str': return '"'+n[1]+'"'
    if k=='var': return '@'+n[1]
    if k=='fn': return n[1]+'('+', '.join(txt(a) for a in n[2])+')'
    if k=='eq': return txt(n[1])+' == '+txt(n[2])
    if k=='when': return txt(n[1])+' -> '+txt(n[2])
    if k=='assign': return '@'+n[1]+''.join('.'+q for q in n[2])+' = '+txt(n[3])
    raise Exception(k)

def gen_num(r,d,vars_):   # numeric valued expr
    c=r.random()
    if d<=0 or c<0.35:
        return r.choice([('hdr','a'),('hdr','b'),('int',r.choice([0,1,2,3,5,9,10,11,100]))]+[('var',v) for v in vars_ if v.startswith('n')])
    f=r.choice(['add','subtract','multiply','int','length','count_lines','line_number','mod','divide'])
    if f in('add','subtract','multiply'): return ('fn',f,[gen_num(r,d-1,vars_),gen_num(r,d-1,vars_)])
    if f=='mod' or f=='divide': return ('fn',f,[gen_num(r,d-1,vars_),('int',r.choice([1,2,3,4]))])
    if f=='int': return ('fn','int',[r.choice([('hdr','a'),('hdr','b')])])
    if f=='length': return ('fn','length',[gen_str(r,d-1,vars_,False)])
    return ('fn',f,[])
def gen_str(r,d,vars_,term_ok=True):
    c=r.random()
    if d<=0 or c<0.4:
        return r.choice([('hdr','c'),('hdr','d')]+([('str',r.choice(['abc','x','Q','ab','b c']))] if term_ok else [])+[('var',v) for v in vars_ if v.startswith('s')])
    f=r.choice(['concat','lower','upper','strip','substring'])
    if f=='concat': return ('fn','concat',[gen_str(r,d-1,vars_),gen_str(r,d-1,vars_)])
    if f=='substring': return ('fn','substring',[gen_str(r,d-1,vars_,False),('int',r.choice([0,1,2,5]))])
    return ('fn',f,[gen_str(r,d-1,vars_,False)])
def gen_bool(r,d,vars_):
    c=r.random()
    if d<=0 or c<0.25:
        return r.choice([('fn','yes',[]),('fn','no',[]),('hdr',r.choice(HDRS)),('eq',('hdr','c'),('str',r.choice(['abc','x','Q']))),('eq',('hdr','a'),('int',r.choice([1,5,9,10])))]+[('var',v) for v in vars_])
    f=r.choice(['not','and','or','gt','lt','above','below','equals','between','from_to','beyond','in','empty','exists','starts_with','eqn','eqs'])
    if f=='not': return ('fn','not',[gen_bool(r,d-1,vars_)])
    if f in('and','or'): return ('fn',f,[gen_bool(r,d-1,vars_),gen_bool(r,d-1,vars_)])
    if f in('gt','lt','above','below'): return ('fn',f,[gen_num(r,d-1,vars_),gen_num(r,d-1,vars_)])
    if f=='equals': return ('fn','equals',[gen_num(r,d-1,vars_),gen_num(r,d-1,vars_)])
    if f in('between','from_to','beyond'): return ('fn',f,[gen_num(r,d-1,vars_),gen_num(r,d-1,vars_),gen_num(r,d-1,vars_)])
    if f=='in': return ('fn','in',[r.choice([('hdr','c'),('hdr','a')]),('str',r.choice(['abc|x','1|5|10','Q']))])
    if f in('empty','exists'): return ('fn',f,[('hdr',r.choice(HDRS))])
    if f=='starts_with': return ('fn','starts_with',[gen_str(r,d-1,vars_,False),('str',r.choice(['a','ab','Q']))])
    if f=='eqn':
        l=gen_num(r,d-1,vars_)
        if l[0]=='int': l=('hdr','a')
        return ('eq',l,('int',r.choice([0,1,2,3,5,10])))
    if f=='eqs': return ('eq',gen_str(r,d-1,vars_,False),gen_str(r,d-1,vars_))
def gen_prog(r):
    comps=[]; vars_=[]
    for i in range(r.randint(1,5)):
        c=r.random()
        if c<0.3:
            if r.random()<0.5:
                name='n'+str(len(vars_)); val=gen_num(r,2,vars_)
            else:
                name='s'+str(len(vars_)); val=gen_str(r,2,vars_)
            comps.append(('assign',name,[],val)); vars_.append(name)
        elif c<0.45:
            name='n'+str(len(vars_)) ; 
            comps.append(('when',gen_bool(r,2,vars_),('assign',name,[],gen_num(r,1,vars_)))); vars_.append(name)
        else:
            comps.append(gen_bool(r,3,vars_))
    return comps

def gen_file(r):
    rows=[['a','b','c','d']] if r.random()<0.8 else []
    for i in range(r.randint(0,7)):
        if r.random()<0.12: rows.append([]); continue
        a=r.choice(['0','1','2','5','9','10','11','100','','7'])
        b=r.choice(['0','1','2','5','9','10','11','100','','3'])
        c=r.choice(['abc','x','Q','ab',' x ','','ABC'])
        d=r.choice(['abc','q','b c','','X'])
        row=[a,b,c,d][:r.choice([4,4,4,3,2,5])]
        if len(row)==5: row.append('z')
        rows.append(row)
    return rows

# ---------- model
def is_none(v):
    if v is None: return True
    if isinstance(v,float) and math.isnan(v): return True
    if isinstance(v,str) and v.strip() in('', 'None','nan'): return True
    return False
def num(v, fname):
    # numeric argument conversion; text -> error expected ; None -> unspecified
    if v is None or (isinstance(v,str) and v.strip()==''): raise Unspec('none to '+fname)
    if isinstance(v,bool): raise Unspec('bool to num')
    if isinstance(v,(int,float)): return v
    try: return int(v)
    except ValueError:
        try: return float(v)
        except ValueError: raise ExpErr(fname)
class M:
    def __init__(self, comps, rows, AND=True):
        self.comps=comps; self.rows=rows; self.AND=AND
        self.vars={}; self.headers=None
        for r_ in rows:
            if len(r_)>0: self.headers=[h.strip() for h in r_]; break
        if self.headers is None: self.headers=[]
    def hdr(self,name):
        if name.isdigit(): i=int(name)
        else:
            if name not in self.headers: return None
            i=self.headers.index(name)
        if i>=len(self.line): return None
        return self.line[i].strip()
    def val(self,n):
        k=n[0]
        if k=='hdr': return self.hdr(n[1])
        if k in('int','flt','str'): return n[1]
        if k=='var': return self.vars.get(n[1])
        if k=='eq' : return self.vote(n)
        if k=='fn':
            f=n[1]; a=n[2]
            if f in('yes','no','not','and','or','gt','lt','above','below','equals','between','from_to','beyond','in','empty','exists','starts_with'):
                return self.vote(n)
            if f=='add': return float(num(self.val(a[0]),f))+float(num(self.val(a[1]),f))
            if f=='subtract': return float(num(self.val(a[0]),f))-float(num(self.val(a[1]),f))
            if f=='multiply': return float(num(self.val(a[0]),f))*float(num(self.val(a[1]),f))
            if f=='divide':
                x=num(self.val(a[0]),f); y=num(self.val(a[1]),f)
                return float('nan') if float(y)==0 else float(x)/float(y)
            if f=='mod': return round(float(num(self.val(a[0]),f))%float(num(self.val(a[1]),f)),2)
            if f=='int':
                v=num(self.val(a[0]),f); return int(v)
            if f=='length':
                v=self.val(a[0])
                if v is None: raise Unspec('length none')
                return len(str(v).strip()) if isinstance(v,str) else len(str(v))
            if f=='count_lines': return self.data_count
            if f=='line_number': return self.lineno
            if f in('concat','lower','upper','strip','substring'):
                vs=[self.val(x) for x in a]
                if any(is_none(v) for v in vs[:1 if f!='concat' else None]): raise Unspec('str fn none')
                if f=='concat': return ''.join(str(v) for v in vs).strip()
                if f=='lower': return str(vs[0]).lower().strip()
                if f=='upper': return str(vs[0]).upper().strip()
                if f=='strip': return str(vs[0]).strip()
                if f=='substring':
                    return str(vs[0])[0:vs[1]].strip()
        raise Exception('val '+str(n))
    def cmpnum(self,a,b,f):
        if a is None or b is None or is_none(a) or is_none(b): 
            if (a is None) != (b is None): return False
            raise Unspec('cmp none-ish')
        if isinstance(a,float) and math.isnan(a) or isinstance(b,float) and math.isnan(b): raise Unspec('nan')
        x=num(a,f); y=num(b,f)
        return x,y
    def vote(self,n):
        k=n[0]
        if k=='hdr': return not is_none(self.hdr(n[1]))
        if k=='var': return self.vars.get(n[1]) is not None
        if k=='eq':
            l=self.val(n[1]); r_=self.val(n[2])
            if isinstance(l,float) and math.isnan(l) or isinstance(r_,float) and math.isnan(r_): raise Unspec('nan eq')
            if isinstance(l,(int,float)) and not isinstance(l,bool) and isinstance(r_,(int,float)) and not isinstance(r_,bool): return l==r_
            if isinstance(l,str) and isinstance(r_,str): return l.strip()==r_.strip()
            if isinstance(l,str) and isinstance(r_,int) and not isinstance(r_,bool):
                return l.strip()==str(r_) if (l.strip().isdigit() and str(int(l.strip()))==l.strip()) or not l.strip().lstrip('-').replace('.','',1).isdigit() else (_ for _ in ()).throw(Unspec('noncanon'))
            if l is None and r_ is None: raise Unspec('none==none')
            if l is None or r_ is None: return False
            raise Unspec('eq mixed')
        if k=='fn':
            f=n[1]; a=n[2]
            if f=='yes': return True
            if f=='no': return False
            if f=='not': return not self.vote(a[0])
            if f=='and':
                for x in a:
                    if not self.vote(x): return False
                return True
            if f=='or':
                for x in a:
                    if self.vote(x): return True
                return False
            if f in('gt','above','lt','below'):
                x=self.val(a[0]); y=self.val(a[1])
                r_=self.cmpnum(x,y,f)
                if r_ is False: return False
                x,y=r_
                return x>y if f in('gt','above') else x<y
            if f=='equals':
                x=self.val(a[0]); y=self.val(a[1])
                if x is None and y is None: return True
                if is_none(x) or is_none(y): raise Unspec('equals none')
                return float(num(x,f))==float(num(y,f))
            if f in('between','from_to','beyond'):
                vs=[self.val(x) for x in a]
                if any(v is None for v in vs): return False
                if any(is_none(v) for v in vs): raise Unspec('between empty')
                m,x,y=[float(num(v,f)) for v in vs]
                if any(math.isnan(z) for z in (m,x,y)): raise Unspec('nan')
                lo,hi=min(x,y),max(x,y)
                if f=='between': return lo<m<hi
                if f=='from_to': return lo<=m<=hi
                return m<lo or m>hi
            if f=='in':
                v=self.val(a[0])
                opts=[o.strip() for o in a[1][1].split('|')]
                if v is None: return False
                return v in opts
            if f=='empty': return is_none(self.val(a[0]))
            if f=='exists': return not is_none(self.val(a[0]))
            if f=='starts_with':
                v=self.val(a[0])
                if is_none(v): raise Unspec('sw none')
                return str(v).strip().startswith(a[1][1].strip())
        raise Exception('vote '+str(n))
    def comp(self,c):
        k=c[0]
        if k=='assign':
            self.vars[c[1]]=self.val(c[3]); return self.AND
        if k=='when':
            if self.vote(c[1]):
                self.comp(c[2]); return True
            return False
        return self.vote(c)
    def run(self):
        trace=[]; self.data_count=0; matches=0
        for i,line in enumerate(self.rows):
            self.lineno=i; self.line=line
            if len(line)==0: continue
            self.data_count+=1
            votes=[self.comp(c) for c in self.comps]
            m=all(votes) if self.AND else any(votes)
            if m: matches+=1
            trace.append((i,m,copy.deepcopy(self.vars)))
        return trace

_orig=CsvPath._consider_line
TR=[]
def hooked(self,line):
    r_=_orig(self,line)
    if len(line)>0:
        TR.append((self.line_monitor.physical_line_number, r_, {k:copy.deepcopy(v) for k,v in self.variables.items() if not k.startswith('_intx')}))
    return r_
CsvPath._consider_line=hooked
def real(comps, rows, AND):
    with open('f.csv','w',newline='') as f: csv.writer(f,lineterminator='\n').writerows(rows)
    p=('' if AND else '~ logic-mode: OR ~ ')+'$f.csv[*]['+' '.join(txt(c) for c in comps)+']'
    c=CsvPath(print_default=False); c.config.csvpath_errors_policy=['collect']
    TR.clear()
    with contextlib.redirect_stdout(io.StringIO()):
        try: c.collect(p)
        except Exception as e: return p,'EXC '+repr(e)[:200],0
    return p,list(TR),[str(e.error)[:120] for e in (c.errors or [])]
def norm(t):
    def nv(v):
        if isinstance(v,float):
            if math.isnan(v): return 'nan'
            return round(v,9)
        return v
    return [(i,m,{k:nv(v) for k,v in d.items()}) for i,m,d in t]
if __name__=='__main__':
    seed=int(sys.argv[1]); n=int(sys.argv[2])
    stats=collections.Counter(); classes=collections.defaultdict(list)
    for ci in range(n):
        r=random.Random(f"{seed}:{ci}")
        comps=gen_prog(r); rows=gen_file(r); AND=r.random()<0.75
        if not any(len(x) for x in rows): continue
        try:
            mt=M(comps,rows,AND).run(); status='decided'
        except Unspec as e: stats['unspec']+=1; continue
        except ExpErr as e: stats['experr']+=1; continue
        p,rt,errs=real(comps,rows,AND)
        if isinstance(rt,str): stats['exc']+=1; classes['EXC'].append((p,rt,rows)); continue
        if errs:
            stats['unexpected_error']+=1; classes['ERR'].append((p,errs[:2])); continue
        if norm(mt)!=norm(rt):
            stats['diff']+=1
            # first divergence
            for x,y in zip(norm(mt),norm(rt)):
                if x!=y:
                    fns=sorted(set([w.split('(')[0].strip('@ ') for w in p.replace(')',' ').replace(',',' ').split() if '(' in w]))
                    classes[('vote' if x[1]!=y[1] else 'vars')].append((p,rows[x[0]],x,y)); break
        else: stats['agree']+=1
    print(stats)
    for k,v in classes.items():
        print('==',k,len(v))
        for item in v[:int(sys.argv[3]) if len(sys.argv)>3 else 6]: print('   ',item)

import sys, os, itertools, io, contextlib, collections
from csvpath import CsvPath
def run(scan, fname):
    c = CsvPath(print_default=False)
    out=io.StringIO()
    with contextlib.redirect_stdout(out):
      try:
        lines = c.collect(f"${fname}[{scan}][yes()]")
        return [int(l[0]) for l in lines], c.scan_count
      except Exception as e:
        return ("EXC", type(e).__name__+":"+str(e)[:80]), None
def mkfile(n, blanks, name):
    with open(name,'w') as f:
        for i in range(n):
            f.write("\n" if i in blanks else f"{i},x\n")
N=7
res=collections.Counter()
bad=collections.defaultdict(list)
for blanks in [set(), {0}, {3}, {6}, {2,3}]:
  fname=f"s{'_'.join(map(str,sorted(blanks)))}.csv"
  mkfile(N, blanks, fname)
  def expect(s): return [i for i in sorted(s) if i<N and i not in blanks]
  cases=[("*", set(range(N)))]
  for a in range(0,N+3):
    cases.append((f"{a}*", set(range(a,N))))
    cases.append((f"{a}", {a}))
    for b in range(0,N+3):
      cases.append((f"{a}-{b}", set(range(min(a,b),max(a,b)+1))))
  # plus lists
  for a in range(0,N+1):
    for b in range(a+1,N+2):
      cases.append((f"{a}+{b}", {a,b}))
      for c in range(b+1,N+3):
        cases.append((f"{a}+{b}+{c}", {a,b,c}))
        cases.append((f"{a}-{b}+{c}", set(range(a,b+1))|{c}))
        cases.append((f"{a}+{b}-{c}", {a}|set(range(b,c+1))))
        for d in range(c+1,N+3):
          cases.append((f"{a}-{b}+{c}-{d}", set(range(a,b+1))|set(range(c,d+1))))
  for scan, s in cases:
    got, sc = run(scan, fname)
    exp = expect(s)
    ok = got==exp and sc==len(exp)
    res[ok]+=1
    if not ok:
        shape = ''.join('N' if ch.isdigit() else ch for ch in scan)
        bad[(shape, '0' in scan.replace('10','') )].append((scan, sorted(blanks), got, sc, exp))
print(res)
for k,v in bad.items():
    print(k, len(v), v[:4])

import io, contextlib, os, json, sys, csv, warnings
from csvpath import CsvPaths, CsvPath
hdrs=[['a','b'],['"q','b'],['a"b','c'],[' sp ace ','x'],['a,b','c'],['','b'],['',''],['x\ny','z'],["it's",'b'],['a','a'],['1','2']]
out=[]
for i,h in enumerate(hdrs):
    fn=f"h{i}.csv"
    with open(fn,'w',newline='') as f:
        w=csv.writer(f); w.writerow(h); w.writerow(['1','2'])
    row=[]
    for attempt in range(2):
        cs=CsvPaths(print_default=False)
        c=cs.csvpath()
        with contextlib.redirect_stdout(io.StringIO()):
            try:
                lines=c.collect(f"${fn}[*][yes()]")
                row.append((c.headers, len(lines), c.line_monitor.physical_end_line_number))
            except Exception as e:
                row.append(("EXC",repr(e)[:80]))
    c=CsvPath(print_default=False)
    with contextlib.redirect_stdout(io.StringIO()):
        lines=c.collect(f"${fn}[*][yes()]")
    row.append((c.headers,len(lines), c.line_monitor.physical_end_line_number))
    print(h, "cold==warm" if row[0]==row[1] else "COLD!=WARM", "csvpaths==standalone" if row[0]==row[2] else "CSVPATHS!=STANDALONE", row if not(row[0]==row[1]==row[2]) else "")
# stale cache: same path, content changes
open('st.csv','w').write("a,b\n1,2\n")
cs=CsvPaths(print_default=False); c=cs.csvpath()
with contextlib.redirect_stdout(io.StringIO()): c.collect("$st.csv[*][yes()]")
open('st.csv','w').write("x,y,z\n1,2,3\n4,5,6\n")
cs=CsvPaths(print_default=False); c=cs.csvpath()
with contextlib.redirect_stdout(io.StringIO()): l=c.collect("$st.csv[*][last() -> @l = line_number()]")
print("stale:", c.headers, l, c.variables)

import io, contextlib, warnings
warnings.simplefilter("ignore")
from csvpath import CsvPath
from csvpath.util.printer import TestPrinter
open('p.csv','w').write("a,b\nA1,B1\n")
def run(tmpl):
    c=CsvPath(print_default=False); tp=TestPrinter(); c.add_printer(tp); c.config.csvpath_errors_policy=["collect"]
    with contextlib.redirect_stdout(io.StringIO()):
        c.collect(f'~ title: T ~ $p.csv[1][ @v = "V" push("s","S0") push("s","S1") @d.k = "DK" print("{tmpl}") ]')
    return tp.lines, [str(e.error)[:80] for e in (c.errors or [])]
for t in ["$.headers.a","x $.headers.a y","$.headers.a,$.headers.b","$.headers.a, $.headers.b","$.headers.a $.headers.b","($.headers.a)","$.headers.a..","$.headers.a.. next","$.headers.a!","$.variables.v/$.variables.d.k","$.variables.s.1 $.variables.s.length",
          "$.metadata.title:","$.csvpath.line_number;$.csvpath.count_matches","a  b   c","  lead","trail  ","$.headers.a-$.headers.b", "$.headers.a$.headers.b","$.headers.0 $.headers.'a'","$.variables.nope x","tab\there","$.headers.a.","50% of $.headers.a"]:
    print(repr(t).ljust(50), run(t))

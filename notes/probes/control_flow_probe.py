import io, contextlib, warnings
from csvpath import CsvPath
from csvpath.util.printer import TestPrinter
def run(p):
    c=CsvPath(print_default=False); tp=TestPrinter(); c.add_printer(tp); c.config.csvpath_errors_policy=["collect"]
    with contextlib.redirect_stdout(io.StringIO()):
        try: l=c.collect(p)
        except Exception as e: return "EXC "+repr(e)[:100]
    return [x[0] for x in l], {k:v for k,v in c.variables.items() if not k.startswith("_intx")}, tp.lines, c.scan_count, c.match_count
files={'e0':"0\n1\n2\n3\n4\n", 'e1':"0\n1\n2\n3\n4\n\n", 'e2':"0\n1\n2\n3\n4\n\n\n", 'mid':"0\n1\n\n3\n4\n"}
for fn,txt in files.items():
    open(fn+'.csv','w').write(txt)
for fn in files:
  for scan in ['*','1-3','2*','0+2','3','1-9','4','5']:
    print(fn, scan.ljust(4), run(f'${fn}.csv[{scan}][ push("b",#0) last.nocontrib() -> push("L", line_number()) push("a",#0)]'))
print("advance")
for scan in ['*','1-3']:
    print(run(f'$e0.csv[{scan}][ push("b",#0) #0=="1" -> advance(2) push("a",#0) ]'))
    print(run(f'$mid.csv[{scan}][ push("b",#0) #0=="1" -> advance(1) push("a",#0) ]'))
print(run(f'$e0.csv[*][ push("b",#0) stop(#0=="2") push("a",#0) ]'))
print(run(f'$e0.csv[*][ push("b",#0) #0=="2" -> stop() push("a",#0) ]'))
print(run(f'$e0.csv[*][ push("b",#0) skip(#0=="2") push("a",#0) ]'))
print(run(f'$e0.csv[*][ push("b",#0) push.onmatch("om",#0) skip(#0=="2") push("a",#0) ]'))
print(run(f'$e0.csv[*][ push("b",#0) push.onmatch("om",#0) stop(#0=="2") push("a",#0) ]'))
print(run(f'$e0.csv[*][ push("b",#0) push("a",#0) #0=="2" -> stop() ]'))

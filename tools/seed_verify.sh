#!/bin/sh
# tools/seed_verify.sh <PROP> <slug>  -- collect a sub-agent's change from /tmp/seed/<PROP> into /verif/seeded/<PROP>-<slug>/
# and confirm: demo exits 1 with the change, 0 without. (No git stash: the stash is shared by all worktrees.)
P=$1; S=$2; WT=/tmp/seed/$P; OUT=/verif/seeded/$P-$S
mkdir -p $OUT
git -C $WT diff -- csvpath > $OUT/patch.diff
[ -s $OUT/patch.diff ] || { echo "no diff in $WT"; exit 1; }
cp $WT/demo/demo.py $OUT/demo.py
cd $WT
PYTHONPATH=$WT timeout 900 /venv/bin/python demo/demo.py > $OUT/demo_with_change.out 2>&1; A=$?
git checkout -q -- csvpath
PYTHONPATH=$WT timeout 900 /venv/bin/python demo/demo.py > $OUT/demo_without_change.out 2>&1; B=$?
git apply $OUT/patch.diff
echo "$P-$S: demo with change exit=$A, without change exit=$B; patch: $(grep -c '^[+-][^+-]' $OUT/patch.diff) changed lines in $(grep -c '^diff' $OUT/patch.diff) file(s)"

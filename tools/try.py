#!/venv/bin/python
"""tools/try.py '<match part or full csvpath>' 'csv text with \\n' [policy,comma] -- scratch runner for exploring behaviour"""
import os, sys, json
sys.path.insert(0, "/verif")
os.environ["CSVPATH_VERIF"] = "1"
os.makedirs("/tmp/try", exist_ok=True); os.chdir("/tmp/try")
from vfy import env, hooks
env.setup_scratch("/tmp/try"); env.install_lark_memo(); hooks.install_all()
prog, data = sys.argv[1], sys.argv[2].encode().decode("unicode_escape")
policy = sys.argv[3].split(",") if len(sys.argv) > 3 and sys.argv[3] else ["collect", "print"]
open("t.csv", "w", newline="").write(data)
if not prog.lstrip().startswith(("$", "~")):
    prog = "$t.csv[*]" + prog
else:
    prog = prog.replace("$[", "$t.csv[")
c, cap = env.new_csvpath(policy)
with env.quiet_stdout() as q, hooks.recording() as rec:
    try:
        lines = c.collect(prog); exc = None
    except Exception as e:
        lines = None; exc = repr(e)
print("prog:", prog)
print("lines:", lines, "exc:", exc)
print("vars:", {k: v for k, v in c.variables.items() if not k.startswith("_intx")})
print("valid:", c.is_valid, "stopped:", c.stopped, "scan:", c.scan_count, "match:", c.match_count)
print("errors:", [(e.line_count, str(e.error)[:150]) for e in (c.errors or [])])
print("printed:", cap.lines)
for ev in rec.lines:
    print("  L", ev["pln"], ev["ret"], ev["considered"], ev["vars"], "valid" if ev["valid"] else "INVALID", "stopped" if ev["stopped"] else "")
print("votes:", rec.votes)
print("evals:", rec.evals)
if q.buf.getvalue(): print("stdout:", q.buf.getvalue()[:500])

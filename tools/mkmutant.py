#!/usr/bin/env python3
"""tools/mkmutant.py <name> "<props>" <file under csvpath/> <old> <new> [occurrence|all]  -> mutants/<name>.diff"""
import difflib, sys, os
name, props, rel, old, new = sys.argv[1:6]
occ = sys.argv[6] if len(sys.argv) > 6 else "1"
old = old.encode().decode("unicode_escape"); new = new.encode().decode("unicode_escape")
p = os.path.join("/repo/csvpath", rel)
src = open(p).read()
n = src.count(old)
assert n >= 1, f"pattern not found in {rel}"
if occ == "all":
    out = src.replace(old, new)
else:
    k = int(occ); assert n >= k, f"only {n} occurrences"
    parts = src.split(old); out = old.join(parts[:k]) + new + old.join(parts[k:])
diff = "".join(difflib.unified_diff(src.splitlines(True), out.splitlines(True), f"a/csvpath/{rel}", f"b/csvpath/{rel}"))
open(f"/verif/mutants/{name}.diff", "w").write(f"# property: {props}\n" + diff)
print(name, "ok", diff.count("\n+") - 1, "added lines")

#!/bin/sh
# tools/sweep.sh "<seeds>" [tier] [props...]  -- run checks for several VERIF_SEED values with a scratch VERIF_REPO copy
# (so the real evidence files are not overwritten); prints one line per (property, seed)
SEEDS="$1"; TIER="${2:-quick}"; shift 2 2>/dev/null
PROPS="$@"; [ -z "$PROPS" ] && PROPS="C01 C02 C03 C04 C05 C06 C07 C08 C09 C10 C11 C12 C13 C14 C15 C16 C17 C18 C19 C20"
TMP="${TMPDIR:-/tmp}/vfy-sweep-$$"; mkdir -p $TMP/repo; cp -r /repo/csvpath $TMP/repo/csvpath
cd /verif
for s in $SEEDS; do for p in $PROPS; do
  out=$(VERIF_SEED=$s VERIF_REPO=$TMP/repo ./check $p --tier $TIER 2>&1); code=$?
  echo "$p seed=$s exit=$code $(echo "$out" | grep -E '^VIOLATION|^INCONCLUSIVE' | head -2 | tr '\n' ' ')"
done; done
rm -rf $TMP

#!/usr/bin/env python3
"""Write meta.json for every collected seed (from the table below) and seeded/README.md."""
import json, os, glob
S = "/verif/seeded"
META = {
 "C01-variable-exists-uses-is-none": ("C01", "Variable.matches uses is_none() instead of 'is not None' for the existence test", "a variable used alone (or under not/and/or/->) whose current value is '' / whitespace / NaN / the text None", "C01 quick (match divergence)", "as first built"),
 "C02-move-range-truthiness-line0": ("C02", "Scanner._move_range_to_these guards with truthiness again", "a '+' list whose first operand is a range starting at line 0 (0-2+5) and a denoted record after that range", "C02 quick (includes()/is_last contract + offered-to-matcher)", "as first built"),
 "C03-first-line0-falsy": ("C03", "first() re-records a value's line when the stored line number is falsy", "first() evaluated on physical line 0 (no header row / scan from 0) and the same value recurring later", "C03 quick (vars divergence)", "after adding the 'no header row, scan from line 0, headers by index' stratum to the C01/C03 generators"),
 "C04-run-started-stamp-line1": ("C04", "track_line stamps run_started_at on physical line 1 instead of 0", "a named-paths member that sees line 0 but never line 1 (one-line file, [0] scan, stop on line 0); only Result.is_valid / results_manager.is_valid go wrong", "C04 quick (group:Result.is_valid, group:results_manager.is_valid)", "as first built"),
 "C05-error-line0-minus-one": ("C05", "ErrorHandler.build takes the line number by truthiness: line 0 becomes -1", "an error on physical line 0 under a policy with collect", "C05 quick (collect: error line numbers) and C18 quick", "after adding the headerless layout (first offending line = physical line 0) to C05 and line-0 abort points to C18"),
 "C06-linecounter-drops-quotechar": ("C06", "LineCounter pre-scan no longer passes the quote character", "non-default quotechar and a first record (or any cell) that csv.writer has to quote", "C06 quick (headers, header-value)", "as first built"),
 "C07-unmatched-keep-skips-stop-check": ("C07", "next(): 'continue' after storing an unmatched line skips the stopped check", "unmatched-mode: keep + collect() + a stop taking effect on a line that is not returned + more lines after it", "C07 quick (trace collect vs next)", "after adding mode comments (unmatched-mode, return-mode, ...) to the C07/C08/C09 generators and line-monitor counters to the final state"),
 "C08-byline-return-mode-override": ("C08", "breadth-first loader applies the run-level collect_when_not_matched after loading, overriding the member's own return-mode", "a by_line run and a member whose comment sets return-mode: no-matches", "C08 quick (trace by_line)", "after adding mode comments to group members"),
 "C09-unmatched-csv-dropped-when-no-match": ("C09", "serializer writes unmatched.csv only 'if lines and unmatched' (an empty spooler is falsy)", "collect_paths + unmatched-mode: keep + a member that matches no line", "C09 quick (member:unmatched.csv)", "as first built"),
 "C10-last-resolved-from-stale-listing-cache": ("C10", "ResultsManager caches the listing of archive/<name> per instance", "a long-lived instance that resolved ':last' before, a different instance making a new run of that group, then the first instance resolving again", "C10 quick (reference-last)", "after adding a long-lived observer instance that resolves ':last'/':first' after every run"),
 "C11-dedupe-against-any-earlier-entry": ("C11", "register_complete treats a registration as a repeat if ANY earlier manifest entry matches", "add X, add Y, add X again under one name and source file name", "C11 quick (current-version-has-wrong-bytes, manifest-length)", "as first built"),
 "C12-manifest-dedupe-against-whole-history": ("C12", "paths manifest entry skipped when the fingerprint appears anywhere in the history", "add A, replace with B, replace with A again (no remove in between)", "C12 quick (get_named_paths-raises / manifest-length)", "after turning an exception inside the checker into a violation (it crashed the worker = inconclusive before)"),
 "C13-last-ignores-file-end-when-scan-overshoots": ("C13", "last() asks only the scanner, which never reports the last line when the scan window reaches past the end of the file", "a bounded scan window / list whose upper bound is beyond the file's last line, and a last() in the match part", "C13 quick (match, vars)", "as first built (window 2-9 on 6-8 line files)"),
 "C14-latch-onchange-reordered": ("C14", "_latch_and_onchange tests 'already latched' before 'value changed'", "latch+onchange on one variable and a later line repeating the latched value", "C14 quick (vote:...latch_onchange...)", "as first built"),
 "C15-advance-early-return-skips-return-mode": ("C15", "_consider_line returns False early for lines jumped over by advance(), skipping the return-mode inversion", "return-mode: no-matches together with a firing advance(n)", "C15 quick (return-mode)", "as first built"),
 "C16-keyed-variable-falsy-prints-nothing": ("C16", "print's keyed-variable lookup tests truthiness instead of key presence", "$.variables.x.key whose current value is 0 / 0.0 / False / ''", "C16 quick (text:...)", "after adding tracked variables holding 0.0 / False / '' to the C16 program and reference pool"),
 "C17-comments-stripped-by-regex-before-parse": ("C17", "in-match ~comments~ are stripped with a regex before the text reaches Lark", "a '~' inside a string literal or regex term together with another '~' (second literal tilde or a real comment later)", "C17 quick (parse-exception / tree-differs-from-source)", "after adding string and regex literals containing '~' to the C17 term pools"),
 "C18-clean-early-return-skips-run-reset": ("C18", "CsvPaths.clean() returns early when nothing is held for the group, skipping the run-coordination reset", "an aborted run followed, on the same instance, by a run of a DIFFERENT group that has no in-memory results", "C18 quick (next-run-has-no-own-directory)", "after making the follow-up run alternate between the aborted group and another group"),
 "C19-cacher-returns-shared-headers-list": ("C19", "FileCacher.get_original_headers returns the cached list itself instead of a copy", "jobs through one CsvPaths instance on one file where an earlier job calls append() and a later one observes headers", "C19 quick (in-sequence:headers / vars)", "after adding append() and header-observing components to the C19 job generator"),
 "C20-tracked-reference-falsy-value-reads-none": ("C20", "Reference._variable_value tests truthiness of the tracked value instead of key presence", "$group.variables.v.key whose final value in the most recent run is 0 / '' / False", "C20 quick (reference-value:k)", "as first built"),
}
rows = []
for d in sorted(glob.glob(S + "/C*")):
    name = os.path.basename(d)
    if name not in META:
        print("no meta for", name); continue
    prop, what, needs, caught, when = META[name]
    with_out = open(d + "/demo_with_change.out").read().strip().splitlines()[-1:] if os.path.exists(d + "/demo_with_change.out") else []
    meta = {"property": prop, "change": what, "needs_to_manifest": needs,
            "author": "independent sub-agent given only the property text and a scratch worktree",
            "verified": ["demo/demo.py exits 1 with the change and 0 without (tools/seed_verify.sh; outputs in demo_with_change.out / demo_without_change.out)",
                         "full pinned test suite on the changed tree: 538/538 stable tests pass (BASELINE_REPO=<worktree> tools/baseline.py)"],
            "caught_by": caught, "caught_when": when,
            "how_run": f"VERIF_REPO=<scratch worktree with patch.diff applied> ./check {prop} --tier quick  (exit 1)"}
    json.dump(meta, open(d + "/meta.json", "w"), indent=1)
    rows.append((name, prop, what, needs, caught, when))
with open(S + "/README.md", "w") as f:
    f.write("# Independently written breaks (seeded changes)\n\nEach directory holds `patch.diff` (against /repo HEAD with all fix: commits), the sub-agent's `demo.py`, the demo outputs with/without the change, and `meta.json`. None of these patches is ever committed to /repo.\n\n| seed | property | change | needs | caught by | caught |\n|---|---|---|---|---|---|\n")
    for r in rows:
        f.write("| " + " | ".join(r) + " |\n")
print(len(rows), "seeds")

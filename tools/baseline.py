#!/usr/bin/env python3
"""Run the repository's pinned test command (hooks guard OFF) and compare with BASELINE.json.

usage: tools/baseline.py [pytest args...]      (default: whole suite)
Exit 0 iff every stable_pass test that was selected passed.
"""
import json, os, subprocess, sys, tempfile, xml.etree.ElementTree as ET

def main():
    base = json.load(open("/root/.vp/BASELINE.json"))
    stable = set(base["stable_pass"])
    fd, junit = tempfile.mkstemp(suffix=".junit.xml")
    os.close(fd)
    env = dict(os.environ)
    env.pop("CSVPATH_VERIF", None)
    cmd = ["/venv/bin/python", "-m", "pytest", "-q", "-p", "no:cacheprovider", "--timeout=900",
           "--continue-on-collection-errors", f"--junitxml={junit}"] + sys.argv[1:]
    repo = os.environ.get("BASELINE_REPO", "/repo")
    env["PYTHONPATH"] = repo
    p = subprocess.run(cmd, cwd=repo, env=env, stdout=subprocess.PIPE, stderr=subprocess.STDOUT, text=True)
    tail = p.stdout.strip().splitlines()[-3:]
    passed, seen = set(), set()
    for tc in ET.parse(junit).getroot().iter("testcase"):
        name = f"{tc.get('classname')}::{tc.get('name')}"
        seen.add(name)
        if not any(ch.tag in ("failure", "error", "skipped") for ch in tc):
            passed.add(name)
    os.unlink(junit)
    subprocess.run(["git", "-C", repo, "checkout", "--", "tests"], capture_output=True)  # tests rewrite tracked fixtures
    selected = stable & seen if sys.argv[1:] else stable
    missing = sorted(selected - passed)
    newpass = sorted(passed - stable)
    print("\n".join(tail))
    print(f"stable selected={len(selected)} passed={len(selected & passed)} missing={len(missing)} newly_passing={len(newpass)}")
    for m in missing[:50]:
        print("  MISSING", m)
    sys.exit(1 if missing else 0)

if __name__ == "__main__":
    main()

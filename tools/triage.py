#!/usr/bin/env python3
"""tools/triage.py dump.json [n] - group dumped violations by (class, divergence kind, functions) and show examples"""
import json, sys, collections
sys.path.insert(0, "/verif")
from vfy import lang
d = json.load(open(sys.argv[1])); n = int(sys.argv[2]) if len(sys.argv) > 2 else 2
groups = collections.defaultdict(list)
for v in d["violations"]:
    det = v["detail"]; div = det.get("divergence", {})
    key = (v["cls"], div.get("kind"))
    groups[key].append(v)
for k, vs in sorted(groups.items(), key=lambda kv: -len(kv[1])):
    print("=====", k, len(vs))
    for v in vs[:n]:
        det = v["detail"]
        print("  prog:", det.get("program"))
        print("  rows:", det.get("rows"))
        for kk in ("divergence", "errors", "exception", "residual_after_emulating"):
            if kk in det: print("  ", kk, ":", json.dumps(det[kk])[:500])
        print()

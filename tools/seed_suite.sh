#!/bin/sh
# tools/seed_suite.sh <seed-dir-name|HEAD>...  -- full pinned suite on a scratch copy of the CURRENT /repo with the seed's patch applied
# (logs: /tmp/r2/<name>.log; the copy is removed afterwards). Runs the given names in parallel.
mkdir -p /tmp/r2
for n in "$@"; do
  (
    D=/tmp/r2/$n; rm -rf $D; mkdir -p $D; rsync -a --exclude .git --exclude __pycache__ /repo/ $D/
    if [ "$n" != HEAD ]; then (cd $D && patch -p1 -s < /verif/seeded/$n/patch.diff) || { echo "patch does not apply" > /tmp/r2/$n.log; rm -rf $D; exit; }; fi
    BASELINE_REPO=$D /venv/bin/python /verif/tools/baseline.py > /tmp/r2/$n.log 2>&1
    rm -rf $D
  ) &
done
wait
for n in "$@"; do echo "$n: $(tail -1 /tmp/r2/$n.log)"; done

#!/bin/sh
# tools/seed_try.sh <seed-dir-name> [PROP...]  -- apply seeded/<name>/patch.diff to a scratch copy of the CURRENT /repo/csvpath and run the checks
n=$1; shift; props="$@"; [ -z "$props" ] && props=$(echo $n | cut -c1-3)
TMP="${TMPDIR:-/tmp}/vfy-seedtry-$$"; rm -rf $TMP; mkdir -p $TMP/repo; cp -r /repo/csvpath $TMP/repo/csvpath
(cd $TMP/repo && patch -p1 -s < /verif/seeded/$n/patch.diff) || { echo "$n: patch does not apply"; rm -rf $TMP; exit 2; }
cd /verif
for p in $props; do out=$(VERIF_REPO=$TMP/repo ./check $p --tier quick 2>&1); code=$?; echo "$n: $p exit=$code $(echo "$out" | grep -E '^VIOLATION|^INCONCLUSIVE' | head -2 | sed 's/.*replays\///' | tr '\n' ' ')"; done
rm -rf $TMP

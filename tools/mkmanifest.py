#!/usr/bin/env python3
"""Regenerate MANIFEST.json from the table below (one row per built check)."""
import json, os, subprocess
HERE = os.path.dirname(os.path.dirname(os.path.abspath(__file__)))
ALL = [f"C{i:02d}" for i in range(1, 21)]

# id -> (category, technique, level text, level note, design ref)
BUILT = {
 "C03": ("exploration", "runtime monitor: differential trace checking of per-line variables and counters (LineEvent hook vs reference fold) plus model-independent conservation monitors on scan_count/match_count",
         "Generated variable-writing programs (assignments, tracking keys, stacks, aggregates with name qualifiers, onmatch) x files; after every line the visible variables, scan_count and match_count of the real run are compared with the reference evaluator; known findings F1/F9b attributed by exact emulation.",
         "vfy/model.py is the oracle for variable folds; internal '_intx_' bookkeeping variables excluded", "DESIGN.md#c03"),
 "C04": ("exploration", "runtime monitor: recording property on CsvPath.is_valid (ValidEvents with cause frame; online 'never False->True'), LineEvent verdict per line vs reference execution set, and archive/manager aggregation checks on real CsvPaths runs",
         "Generated fail()/fail_and_stop()/error programs under all 16 no-raise policies are run and the verdict after every line, the site that changed it and the collected error lines are compared with the documented execution set; groups of 1-4 members are run through the six CsvPaths methods and results_manager.is_valid / run manifest all_valid / member manifest valid are compared with the members' verdicts and with standalone runs.",
         "vfy/model.py execution set; allowed verdict-changing sites listed in the check", "DESIGN.md#c04"),
 "C05": ("fault_enumeration", "runtime monitor: real runs over the full error-policy truth table (2^6 policies x fault kind x fault position x validation-mode override) observed by LineEvent and ErrorHandler hooks",
         "Every cell of the policy table is executed; per run the monitors observe whether an exception escaped, what was collected (with line numbers), validity, where the run stopped, what the printers received and which lines matched, and compare with the conjunction of effective flags.",
         "truth table written from the property statement / docs/config.md; 'match' override: no claim about the faulting line's match", "DESIGN.md#c05"),
 "C06": ("exploration", "runtime monitor: differential against Python's csv module on generated arbitrary-text files; LineEvent hook captures #name/#index reads on every line",
         "Random files (unicode, embedded delimiters/quotes/LF, ragged, blanks) in 4 delimiters x 2 quote chars are run through the real reader; returned lines, headers and per-line header reads are compared with csv.reader on the same bytes. Held = no divergence on the generated files.",
         "csv.reader is the reference parser; header cleaning rule transcribed from LineCounter.clean_headers", "DESIGN.md#c06"),
 "C07": ("exploration", "runtime monitor: relational trace comparison - one generated job run through collect(), next(), fast_forward() and collect(nexts=n) for every n, observed by LineEvent and side-effect hooks",
         "The three entry points' per-line traces, final variables/counters/validity/stop state/errors/printouts and returned lines must be identical; collect(nexts=n) must return a prefix and its event trace must be a prefix of the full trace with no set_variable/print tagged with a later line.",
         "no oracle beyond the runs themselves; generator excludes time/random functions", "DESIGN.md#c07"),
 "C08": ("exploration", "runtime monitor: relational trace comparison of each group member across standalone, three serial and three breadth-first CsvPaths methods in several group orders (LineEvent hook keyed by CsvPath instance)",
         "For every generated group and order, each member's per-line trace, final variables, counters, validity, stop state, printouts, errors and collected lines must equal its standalone run; the lines next_paths / next_by_line / collect_by_line hand to the caller must equal the concatenation resp. per-line union / intersection of the members' own decisions.",
         "the standalone CsvPath run is the reference; members use no cross-path signals, references or rewriting functions", "DESIGN.md#c08"),
 "C09": ("exploration", "runtime monitor: archive consistency checker run after every real named-paths run - disk (manifests, vars/errors/meta json, data/unmatched csv, printouts) vs in-memory Results vs lines the LineEvent hook saw each member collect; fingerprints recomputed from bytes on disk",
         "Generated groups (identities or index names, unmatched-mode keep, named printers, hostile cell text, runs ending by exhaustion/stop/fail) are run through all six methods and the four representations are compared field by field.",
         "in-memory Result objects and LineEvents are the reference; stdlib csv/json/hashlib trusted", "DESIGN.md#c09"),
 "C10": ("exploration", "runtime monitor: history checker - archive tree+hash snapshots before/after every run, sys.addaudithook log of writes/renames/removes, virtual clock, history model for directory order and ':last'/':first' references",
         "All step sequences of length 3 (quick) / 4 (thorough) over (group, new/reused instance, clock step) plus random longer histories are executed as real runs; after each run the new directory must be fresh and under its own group, every earlier run's files byte-identical and untouched by any fs event, names chronological across seconds, and ':last'/':first' must resolve to the most recent/earliest run (untied extremes).",
         "virtual clock replaces datetime in csvpath.csvpaths and csvpath.managers.metadata; archive/manifest.json (global run list) excluded", "DESIGN.md#c10"),
 "C11": ("exploration", "runtime monitor: history + executable abstract model of the named-files store, replayed operation by operation against the real FileManager; disk state, manifests and hash snapshots of every stored version compared after each step, from the same and from a fresh instance",
         "All canonical (up to renaming) operation histories of length 4 (quick) / 5 (thorough) over add / mutate source / remove / new instance plus random long histories are executed for real; after every operation the current version's bytes and hash-name, the manifest entries, the fingerprint and every version ever stored are checked against the model.",
         "40-line abstract model written from the property statement; hashlib.sha256", "DESIGN.md#c11"),
 "C12": ("exploration", "runtime monitor: history + executable abstract model of the named-paths store replayed against the real PathsManager; round trip, identity selections and manifest checked after each operation from the same and a fresh instance",
         "Generated member texts (comments before/after/both, inner comments, hostile string literals, six identity keys in any combination) in lists of 1-5, histories of add / identical re-add / replace / remove / new instance: get_named_paths must return the list strip-equal and in order, 'name#id', '$name.csvpaths.id', ':from', ':to' must select exactly by the identity the harness generated, and the manifest must gain one entry (sha256 of the stored group file) per content change.",
         "identity computed by the generator from the metadata it wrote; storage separator text excluded from literals", "DESIGN.md#c12"),
 "C13": ("exploration", "runtime monitor: trace-specification checking ('no component / line evaluated after stop or skip fires', 'advance(n) lines have no effects', 'last() fires once on the final line') on LineEvent + EvalEvent hooks, plus the reference evaluator",
         "Systematic product of control form x position x firing line x scan window x blank layout (about 20k real runs) plus random two-control / onmatch programs; per line the pushes that happened, the components evaluated, matches and counters are compared with the documented behaviour. Known findings F9/F9b attributed by exact emulation.",
         "reference semantics from stop.md/advance.md/last.md; A1 corner (scan window ending on a blank record) not decided", "DESIGN.md#c13"),
 "C15": ("exploration", "runtime monitor: relational comparison of real runs with and without the generated outer comment (LineEvent traces, capture printer, captured stdout) and a partition check of collected vs unmatched lines against the records the LineEvents show were read",
         "Generated programs x files x all mode combinations x arbitrary extra metadata fields and comment placement: metadata values as written, scan/match parts untouched, no-matches = complement within scanned lines, no-run produces no event/line/variable, no-default silences only stdout, keep => collected+unmatched partition the records read.",
         "the un-commented run is the oracle for the commented one; generated values contain no colon (documented field syntax)", "DESIGN.md#c15"),
 "C16": ("exploration", "runtime monitor: snapshot hook at the entry of Print._decide_match + capture printers; expected text substituted from the generator's own chunk list",
         "Templates are built from chunks in stratified arrangements and executed as print / print.onmatch / print.once; every printed entry is compared with the template whose references are replaced by the values the real run held at that instant, plus entry counts, onmatch/once behaviour and printer fan-out. Known finding F10b (adjacent references) attributed by exact emulation.",
         "values 'current at that point' = snapshot of the real run's state at Print._decide_match entry", "DESIGN.md#c16"),
 "C14": ("exploration", "runtime monitor: LineEvent hook on real runs over the exhaustive qualifier x value-history table, compared with a decision function transcribed from docs/assignment.md",
         "Every one of the 256 qualifier subsets x 3-line value histories x rest-matches is executed by the real interpreter and observed per line (value of x, match). Exhaustive for the property quantifier.",
         "decision function (30 lines) transcribed from the property statement; admissible-vote sets where the doc table and priority list disagree (A2)", "DESIGN.md#c14"),
 "C01": ("exploration", "runtime monitor: differential trace checking - LineEvent hook on the real interpreter vs an executable reference evaluator written from the docs, over generated programs x files x logic modes",
         "Tens of thousands of generated (program, file, mode) cases per run; every scanned line's match decision and the returned lines are compared with the reference evaluator's. Undefined corners are dropped and counted, known finding F1 is attributed by exact emulation. Held = no unexplained divergence on the decided cases.",
         "vfy/model.py (reference semantics from README/docs) is the oracle; generator exclusions of DESIGN.md A.3 keep the meaning defined", "DESIGN.md#c01"),
 "C02": ("exploration", "runtime monitor: LineEvent hook + icontract postconditions on Scanner.includes/is_last over an exhaustive enumeration of scan strings x blank layouts",
         "Exhaustive (within the tier's bounds) end-to-end runs; every run is observed by the line hook and the scanner contracts and compared with the denotation of the scan string. Held = no divergence on any enumerated (scan, layout) pair.",
         "denotation function of the scan AST written from README 'Scanning'; csv.reader's notion of a blank record", "DESIGN.md#c02"),
 "C17": ("exploration", "runtime monitor: hook on LarkParser.parse counting _ambig nodes; round-trip of the transformer's component tree against the generating AST; metamorphic layout comparison of trees and LineEvent traces",
         "Generated ASTs over every function name of the factory (125 with learned valid shapes) are rendered in several layouts and parsed by the real parser; each built tree must equal the written AST with no ambiguity node, and runnable programs must give identical traces, printouts and errors in every layout and with an outer comment.",
         "AST->text printer of the generator (validated by the round trip itself); arity table learned from the code under test", "DESIGN.md#c17"),
 "C18": ("fault_enumeration", "runtime monitor: fault injection at every (member, line) abort point of real named-paths runs under a 'raise' policy, observed at the caller boundary and by archive checkers, tree+hash snapshots and a follow-up run",
         "For each generated group every abort point x 2 fault kinds is executed (methods rotating over all six): the exception must reach the caller, every started member must have readable meta/vars/errors with the aborting error and its line number and completed false, earlier members must stay complete and consistent, the run manifest must not say complete, inputs/ must be unchanged, and a following run on the same instance must archive normally in its own directory. Known finding F20 (abort on the final record) is reported after all other obligations were checked.",
         "data-driven faults (argument rejected by add(); ZeroDivisionError inside mod()); members pre-checked to be fault-free otherwise", "DESIGN.md#c18"),
 "C19": ("exploration", "runtime monitor: relational comparison of result tuples across processes - in-sequence vs fresh-process cold-cache twin vs warm-cache process vs direct CsvPath() vs repeat; labelled same-path-new-bytes sub-scenario",
         "Each generated sequence of 2-6 jobs over files with hostile header cells is run in one process through CsvPaths().csvpath(); every job is re-run first in a fresh process with an empty cache, directly, repeated, and again in a new process on the warm cache; all result tuples (lines, variables, printouts, errors, verdict, counters, headers, line count) must be identical.",
         "fresh-process twin is the reference; time/random functions not generated", "DESIGN.md#c19"),
 "C20": ("exploration", "runtime monitor: LineEvent hook showing which records each chain member actually read, compared with the predecessor's collected lines / data.csv, the member manifest and the composition of standalone stages; captured reference values compared with what the referenced group's most recent run left; replay of results references",
         "Generated chains of 2-4 filter members with source-mode preceding on every suffix start, and reference scenarios after 1-3 runs of the referenced group (virtual clock): 'chain == composition of its stages', actual_data_file names the predecessor's data.csv, $name.variables.v[.key] / $name.headers.h[.id] equal the most recent run's values, ':last'/':first' results references replay exactly the referenced data.csv.",
         "standalone CsvPath runs compose the expected chain; chains whose predecessor collects nothing are not decided", "DESIGN.md#c20"),
}

def source_commits():
    try:
        out = subprocess.run(["git", "-C", "/repo", "log", "--format=%h %s"], capture_output=True, text=True).stdout
    except Exception:
        return []
    return [l.split()[0] for l in out.splitlines() if l.split(" ", 1)[1].startswith("verif-hook:")]

def main():
    checks = []
    for pid in ALL:
        if pid not in BUILT:
            continue
        cat, tech, text, note, ref = BUILT[pid]
        checks.append({
            "property_id": pid,
            "quick_cmd": f"./check {pid} --tier quick",
            "thorough_cmd": f"./check {pid} --tier thorough",
            "evidence_file": f"evidence/{pid}.json",
            "replay_cmd_template": f"./check {pid} --replay {{path}}",
            "engine": "vfy",
            "level_claimed": {"category": cat, "text": text, "design_ref": ref},
            "level_note": note,
            "technique": tech,
        })
    na = [{"property_id": p, "reason": "check not built yet in this round (runtime-monitoring design exists in DESIGN.md; nothing is claimed until the check runs)"} for p in ALL if p not in BUILT]
    m = {
        "version": 1,
        "setup_cmd": "./setup.sh",
        "hooks": {
            "guard": "CSVPATH_VERIF",
            "enable": "no source patch: with CSVPATH_VERIF=1 the harness (vfy.hooks) wraps csvpath functions at import time inside worker processes that run a snapshot of /repo/csvpath",
            "baseline_off_cmd": "cd /repo && /venv/bin/python -m pytest -ra -q -p no:cacheprovider --timeout=900 --continue-on-collection-errors",
            "source_commits": source_commits(),
            "add_only": True,
        },
        "engines": [{"name": "vfy", "path": "vfy/", "serves_properties": sorted(BUILT), "kind_free_text": "runtime monitoring harness: generators, hooks on the real interpreter, reference oracles, history checkers"}],
        "checks": checks,
        "notes": "Exit 0 held / 1 violation (VIOLATION line + replay file) / 2 inconclusive. Known findings: known_findings.json. VERIF_SEED, VERIF_TIER, VERIF_REPO honoured.",
        "not_applicable": na,
    }
    with open(os.path.join(HERE, "MANIFEST.json"), "w") as f:
        json.dump(m, f, indent=1)
    print("checks:", [c["property_id"] for c in checks], "na:", len(na))

if __name__ == "__main__":
    main()
